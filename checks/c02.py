"""C02 - tile addresses mean what the capabilities documents say they mean.

For generated grids/layers the harness fetches each service's OWN capabilities (TMS root -> TileMap, WMTS KVP and REST,
WMS 1.1.1 with tiled=true VendorSpecificCapabilities, KML documents), computes with vlib.caps the rectangle a
standards-following client derives for an advertised address, requests the tile and compares its pixels with the NOISE
upstream picture of exactly that rectangle."""
import math
import re
import shutil
import sys
import urllib.parse

import numpy as np

from vlib import core, upstream, scenario, caps

PID = 'C02'
LEVEL = 'exploration'
BUDGET_S = {'quick': 50, 'thorough': 700}
FLOORS = {'quick': {'scenarios': 120, 'tms_tiles': 1500, 'wmts_kvp_tiles': 600, 'wmts_rest_tiles': 600, 'wmsc_tiles': 500,
                    'kml_tiles': 150, 'tiles_origin_param': 500, 'concurrent_capabilities_rounds': 35,
                    'concurrent_capabilities_documents': 1800},
          'thorough': {'scenarios': 2500, 'tms_tiles': 30000, 'wmts_kvp_tiles': 12000, 'wmts_rest_tiles': 12000,
                       'wmsc_tiles': 10000, 'kml_tiles': 3000, 'tiles_origin_param': 10000,
                       'concurrent_capabilities_rounds': 700, 'concurrent_capabilities_documents': 36000}}
RULE = ("case = one generated grid + layer (srs incl. lat/long axis order, bbox class, origin ll/ul, tile size, "
        "factor-2/sqrt2/explicit ladders, global profiles, layer extent equal to or smaller than the grid, TMS origin "
        "option) probed through every tile service: all advertised levels, corner/edge/interior addresses. "
        "evaluations = tiles whose pixels were compared with the NOISE picture of the rectangle computed from the "
        "capabilities; distinct = (service flavour, grid class, origin, level class, position class); non-trivial = "
        "address not (0,0) of a single-tile level")
ASSUMPTIONS = [
    "rectangles follow TMS 1.0.0 (Origin, units-per-pixel, y upwards), WMTS 1.0.0 (ScaleDenominator*0.28mm, TopLeftCorner in "
    "CRS axis order from pyproj, rows downwards), WMS-C (tiles anchored at the TileSet BoundingBox lower-left), KML LatLonBox",
    "pixels less than one pixel inside the grid bbox / the source coverage are not judged; a rectangle shifted by less than "
    "half a pixel is indistinguishable and passes",
    "addresses outside the advertised matrices are C16's subject",
]


def gen_spec(rng):
    gclass = rng.choice(['global_mercator', 'global_geodetic', 'local', 'local', 'local', 'local_ne'])
    tile = rng.choice([[32, 32], [32, 32], [64, 32], [48, 64]])
    grid = {'tile_size': tile, 'origin': rng.choice(['ll', 'ul', 'ul', 'll'])}
    lclass = rng.choice(['f2', 'f2', 'sqrt2', 'list'])
    if gclass == 'global_mercator':
        grid['srs'] = rng.choice(['EPSG:3857', 'EPSG:900913'])
        grid['bbox'] = [-20037508.342789244, -20037508.342789244, 20037508.342789244, 20037508.342789244]
        grid['tile_size'] = [32, 32]
    elif gclass == 'global_geodetic':
        grid['srs'] = 'EPSG:4326'
        grid['bbox'] = [-180.0, -90.0, 180.0, 90.0]
        grid['tile_size'] = rng.choice([[32, 32], [64, 32]])
    elif gclass == 'local':
        grid['srs'] = rng.choice(['EPSG:25832', 'EPSG:3857'])
        x0 = rng.uniform(300000, 600000)
        y0 = rng.uniform(5300000, 5800000)
        aligned = rng.random() < 0.4
        if aligned:
            r0 = rng.choice([100.0, 50.0, 256.0])
            grid['bbox'] = [float(int(x0)), float(int(y0)), float(int(x0)) + tile[0] * r0 * rng.randint(1, 2),
                            float(int(y0)) + tile[1] * r0 * rng.randint(1, 3)]
            grid['res'] = [r0, r0 / 2, r0 / 4, r0 / 8]
            lclass = 'aligned'
        else:
            grid['bbox'] = [x0, y0, x0 + rng.uniform(20000, 90000), y0 + rng.uniform(20000, 90000)]
    else:
        grid['srs'] = rng.choice(['EPSG:4326', 'EPSG:3035'])
        if grid['srs'] == 'EPSG:4326':
            x0, y0 = rng.uniform(-20, 20), rng.uniform(35, 60)
            grid['bbox'] = [x0, y0, x0 + rng.uniform(2, 9), y0 + rng.uniform(2, 9)]
        else:
            x0, y0 = rng.uniform(4000000, 4500000), rng.uniform(2600000, 3200000)
            grid['bbox'] = [x0, y0, x0 + rng.uniform(50000, 300000), y0 + rng.uniform(50000, 300000)]
    if 'res' not in grid:
        if lclass == 'f2':
            grid['num_levels'] = rng.randint(2, 5)
            if gclass.startswith('global') and rng.random() < 0.3:
                # the whole default pyramid: at the deep levels of a degree grid a resolution printed with too few digits
                # moves the tiles far from the origin by many pixels
                grid['num_levels'] = rng.randint(18, 20)
                lclass = 'f2_deep'
        elif lclass == 'sqrt2':
            grid['res_factor'] = 'sqrt2'
            grid['num_levels'] = rng.randint(3, 8)
        else:
            b = grid['bbox']
            r0 = max((b[2] - b[0]) / tile[0], (b[3] - b[1]) / tile[1])
            rs = [r0]
            for _ in range(rng.randint(1, 4)):
                rs.append(rs[-1] / rng.choice([2.0, 1.5, 3.0, 2.5]))
            grid['res'] = rs
    spec = {'grid': grid, 'gclass': gclass, 'lclass': lclass}
    if rng.random() < 0.3 and gclass.startswith('local'):
        b = grid['bbox']
        w, h = b[2] - b[0], b[3] - b[1]
        spec['coverage'] = [b[0] + w * rng.uniform(0.1, 0.3), b[1] + h * rng.uniform(0.1, 0.3),
                            b[2] - w * rng.uniform(0.1, 0.3), b[3] - h * rng.uniform(0.1, 0.3)]
    spec['tms_origin'] = rng.choice([None, None, 'nw'])
    spec['src'] = rng.choice(['wms', 'wms', 'tile'])
    return spec


def build(spec, d):
    conf = scenario.base_conf()
    conf['grids']['g'] = dict(spec['grid'])
    srs = spec['grid']['srs']
    if spec['src'] == 'wms' or spec.get('coverage'):
        src = {'type': 'wms', 'req': {'url': 'http://noise/service?', 'layers': 'a'}, 'supported_srs': [srs]}
        if spec.get('coverage'):
            src['coverage'] = {'bbox': list(spec['coverage']), 'srs': srs}
    else:
        src = {'type': 'tile', 'url': 'http://ntiles/t/%(z)s/%(x)s/%(y)s.png', 'grid': 'g'}
    conf['sources']['src'] = src
    conf['caches']['c'] = {'grids': ['g'], 'sources': ['src'], 'format': 'image/png', 'request_format': 'image/png',
                           'meta_size': [1, 1], 'meta_buffer': 0}
    conf['layers'] = [{'name': 'lyr', 'title': 'lyr', 'sources': ['c']}]
    tms = {}
    if spec.get('tms_origin'):
        tms['origin'] = spec['tms_origin']
    conf['services'] = {'tms': tms, 'wmts': {'restful': True, 'kvp': True}, 'kml': {},
                        'wms': {'srs': [srs], 'image_formats': ['image/png'], 'md': {'title': 't'}}}
    sc = scenario.Scenario(d, conf)
    grid = sc.grid('g')
    lat = upstream.Lattice.from_grid(grid)
    up = upstream.install()
    up.register('noise', upstream.NoiseWMS(lat, [srs, 'EPSG:900913', 'EPSG:3857'], {'epoch': 0}))
    up.register('ntiles', upstream.NoiseTiles(lat, [grid.grid_sizes[z] for z in range(grid.levels)], {'epoch': 0}))
    return sc, grid, lat


def judge_rect(lat, rect, size, img, clip=None, tolerant=False):
    """compare img with NOISE over `rect` (x/y order, lattice SRS). returns (ok, detail, n_pixels, level)"""
    w, h = size
    arr = np.asarray(img.convert('RGB'))
    if arr.shape[1] != w or arr.shape[0] != h:
        return False, 'image size %r, advertised tile size %r' % ((arr.shape[1], arr.shape[0]), size), 0, None
    resx = (rect[2] - rect[0]) / w
    resy = (rect[3] - rect[1]) / h
    lv, off = lat.level_for(resx)
    off = max(abs(resx / lat.res[lv] - 1), abs(resy / lat.res[lv] - 1))
    if off > 1e-6:
        return False, 'advertised rectangle %r has resolution %r/%r, nearest level %d has %r' % (rect, resx, resy, lv, lat.res[lv]), 0, lv
    r = lat.res[lv]
    gx, gy = lat.cells(lv, rect, (w, h))
    exp = upstream.noise_rgb(lv, gx, gy, 0)
    xc = rect[0] + (np.arange(w) + 0.5) * resx
    yc = rect[3] - (np.arange(h) + 0.5) * resy
    lim = list(lat.bbox)
    if clip:
        lim = [max(lim[0], clip[0]), max(lim[1], clip[1]), min(lim[2], clip[2]), min(lim[3], clip[3])]
    mg = 3.5 if clip else 1.5
    mx = (xc > lim[0] + mg * r) & (xc < lim[2] - mg * r)
    my = (yc > lim[1] + mg * r) & (yc < lim[3] - mg * r)
    mask = my[:, None] & mx[None, :]
    n = int(mask.sum())
    if n == 0:
        return True, 'no interior pixel', 0, lv
    eq = (arr == exp).all(axis=2)
    if eq[mask].all():
        return True, '', n, lv
    if tolerant:
        # the upstream request was cut at a coverage/grid border that is not on the pixel lattice: content may sit
        # a pixel or two off: the sub-image is requested for the intersection and scaled/pasted with rounding (placement accuracy is C01's subject)
        ok = eq.copy()
        for dx in (-2, -1, 0, 1, 2):
            for dy in (-2, -1, 0, 1, 2):
                if dx or dy:
                    ok |= (arr == upstream.noise_rgb(lv, gx + dx, gy + dy, 0)).all(axis=2)
        if ok[mask].all():
            return True, 'within one pixel', n, lv
    bad = np.argwhere(mask & ~eq)
    # diagnose: is it the picture of another rectangle (shift in whole pixels)?
    diag = ''
    for dy in range(-h, h + 1):
        for dx in (-w, 0, w):
            if dx == 0 and dy == 0:
                continue
            e2 = upstream.noise_rgb(lv, gx + dx, gy + (dy if lat.ul else -dy), 0)
            if ((arr == e2).all(axis=2))[mask].mean() > 0.9:
                diag = ' (matches the picture shifted by %d px right / %d px down)' % (dx, dy)
                break
        if diag:
            break
    return False, '%d of %d judged pixels differ, first (row,col)=%r got %r expected %r%s' % (
        len(bad), n, tuple(int(v) for v in bad[0]), tuple(int(v) for v in arr[tuple(bad[0])]),
        tuple(int(v) for v in exp[tuple(bad[0])]), diag), n, lv


def positions(rng, nx, ny, k=5):
    cand = {(0, 0), (nx - 1, ny - 1), (0, ny - 1), (nx - 1, 0)}
    for _ in range(k):
        cand.add((rng.randrange(nx), rng.randrange(ny)))
    return sorted(cand)


def pclass(x, y, nx, ny):
    cx = 'only' if nx == 1 else ('first' if x == 0 else ('last' if x == nx - 1 else 'mid'))
    cy = 'only' if ny == 1 else ('first' if y == 0 else ('last' if y == ny - 1 else 'mid'))
    return cx, cy


DIRECTED = [
    # world-wide mercator grid with a custom ladder: level 1 has 2x2 tiles of 2/3 world width (KML wrap-around finding)
    {'grid': {'tile_size': [32, 32], 'origin': 'll', 'srs': 'EPSG:900913',
              'bbox': [-20037508.342789244, -20037508.342789244, 20037508.342789244, 20037508.342789244],
              'res': [1252344.2714243277, 834896.1809495519, 417448.09047477593, 139149.36349159197]},
     'gclass': 'global_mercator', 'lclass': 'list', 'tms_origin': None, 'src': 'tile'},
    # origin ul, rows do not fill the bbox (TMS / WMS-C bottom-anchored finding)
    {'grid': {'tile_size': [32, 32], 'origin': 'ul', 'srs': 'EPSG:25832', 'bbox': [300000.0, 5300000.0, 380000.0, 5390000.0],
              'num_levels': 3}, 'gclass': 'local', 'lclass': 'f2', 'tms_origin': None, 'src': 'wms'},
    # sqrt2 ladder offered through WMTS (level mapping finding)
    {'grid': {'tile_size': [32, 32], 'origin': 'ul', 'srs': 'EPSG:25832', 'bbox': [300000.0, 5300000.0, 380000.0, 5390000.0],
              'res_factor': 'sqrt2', 'num_levels': 5}, 'gclass': 'local', 'lclass': 'sqrt2', 'tms_origin': None, 'src': 'tile'},
]


def gen_cases(run):
    for k, spec in enumerate(DIRECTED):
        yield {'i': 100000 + k, 'spec': spec}
    for i in range(run.pick(260, 5200)):
        yield {'i': i}


def concurrent_capabilities(run, sc, bad, root):
    """the documents a client builds its tile addresses from must not depend on what other clients ask at the same time:
    every capabilities document is fetched alone (reference), then the same requests are issued from four real threads
    (interpreter switch interval 1 microsecond) and every answer must be byte-identical to its reference. Requests differ
    in document and in the host / script name the service URLs are built from."""
    import threading
    docs = [('/tms/1.0.0/', ''), ('/wmts/1.0.0/WMTSCapabilities.xml', ''),
            ('/service', 'SERVICE=WMTS&VERSION=1.0.0&REQUEST=GetCapabilities'),
            ('/service', 'SERVICE=WMS&VERSION=1.1.1&REQUEST=GetCapabilities'),
            ('/service', 'SERVICE=WMS&VERSION=1.3.0&REQUEST=GetCapabilities'),
            ('/service', 'SERVICE=WMS&VERSION=1.1.1&REQUEST=GetCapabilities&tiled=true')]
    for t in root[:3]:
        docs.append((urllib.parse.urlsplit(t['href']).path, ''))
    heads = [{'Host': 'a.example'}, {'Host': 'b.example:8080'}, {'Host': 'c.example', 'X-Script-Name': '/proxy/c'},
             {'X-Forwarded-Host': 'd.example', 'X-Forwarded-Proto': 'https'}]
    reqs = [(p_, q_, h_) for (p_, q_) in docs for h_ in heads]

    def fetch(p_, q_, h_):
        r_ = sc.get(p_ + ('?' + q_ if q_ else ''), headers=h_)
        return r_.code, r_.body
    try:
        ref = [fetch(*rq) for rq in reqs]
    except Exception as ex:
        run.dc('concurrent_capabilities_reference_failed:' + type(ex).__name__)
        return
    again = [fetch(*rq) for rq in reqs]
    stable = [i for i in range(len(reqs)) if again[i] == ref[i] and ref[i][0] == 200]
    if len(stable) < len(reqs):
        run.count('capabilities_documents_not_repeatable_or_not_200', len(reqs) - len(stable))
    diffs = []
    lock = threading.Lock()
    nthreads = 4
    start = threading.Barrier(nthreads)

    def client(k):
        order = stable[k::nthreads] * 2 + stable[::-1][:8]
        try:
            start.wait(20)
            for i in order:
                got = fetch(*reqs[i])
                if got != ref[i]:
                    with lock:
                        diffs.append((i, got))
        except Exception as ex:
            with lock:
                diffs.append((-1, (0, repr(ex).encode())))
    old_switch = sys.getswitchinterval()
    sys.setswitchinterval(1e-6)
    try:
        ths = [threading.Thread(target=client, args=(k,)) for k in range(nthreads)]
        for t in ths:
            t.start()
        for t in ths:
            t.join(120)
    finally:
        sys.setswitchinterval(old_switch)
    run.hit('concurrent_capabilities_rounds')
    run.hit('concurrent_capabilities_documents', len(stable) * 2)
    if diffs:
        i, got = diffs[0]
        if i < 0:
            bad('capabilities', 'concurrent_request_raised', 'a capabilities request raised under concurrency: %r' % (got[1][:300],))
            return
        a, b = ref[i][1], got[1]
        pos = next((k for k in range(min(len(a), len(b))) if a[k] != b[k]), min(len(a), len(b)))
        bad('capabilities', 'document_differs_under_concurrency',
            '%d of %d concurrently fetched documents differ from the same request issued alone; first: %s?%s headers %r: status %d vs '
            '%d, first difference at byte %d: alone %r, concurrently %r' % (
                len(diffs), len(stable) * 2, reqs[i][0], reqs[i][1], reqs[i][2], ref[i][0], got[0], pos, a[max(0, pos - 60):pos + 60],
                b[max(0, pos - 60):pos + 60]))


def run_case(run, case):
    rng = run.rng('s', case['i'])
    spec = case.get('spec') or gen_spec(rng)
    d = run.subdir('c02')
    try:
        _run(run, case, spec, rng, d)
    finally:
        shutil.rmtree(d, ignore_errors=True)


def _run(run, case, spec, rng, d):
    try:
        sc, grid, lat = build(spec, d)
    except Exception as ex:
        run.dc('config_rejected:' + type(ex).__name__)
        return
    clip = spec.get('coverage')
    gcls = (spec['gclass'], spec['lclass'], grid.origin, bool(clip), spec['grid']['srs'])
    srs = spec['grid']['srs']
    ne = upstream.northing_first(srs)
    is_deg = srs == 'EPSG:4326'
    count = {'bad': 0}
    offgrid_addrs = set()
    stretched = []   # bboxes of upstream sub-requests issued at a stretched resolution (coverage edges)

    def note_stretched(n0_):
        for c_ in upstream.UP.log:
            if c_.n > n0_ and c_.extra.get('offgrid', 0.0) > 0.02 and 'q' in c_.extra:
                stretched.append(c_.extra['q']['bbox'])

    def touches_stretched(rect_):
        return any(rect_[0] < b_[2] and rect_[2] > b_[0] and rect_[1] < b_[3] and rect_[3] > b_[1] for b_ in stretched)
    # can rows be counted from the other corner without moving any rectangle? (exact, independent of TileGrid)
    from vlib.gridmodel import GridModel
    gm = GridModel(grid.bbox, [grid.resolution(z) for z in range(grid.levels)], grid.tile_size, grid.origin)
    worst = max(gm.misalignment(z, grid.grid_sizes[z][1]) / gm.res[z] for z in range(grid.levels))
    flippable = worst < 1e-6
    r_ = [grid.resolution(z) for z in range(grid.levels)]
    overhang = any(grid.grid_sizes[z][0] * grid.tile_size[0] * r_[z] - (grid.bbox[2] - grid.bbox[0]) > r_[z] or
                   grid.grid_sizes[z][1] * grid.tile_size[1] * r_[z] - (grid.bbox[3] - grid.bbox[1]) > r_[z]
                   for z in range(grid.levels))
    sqrt2_ladder = len(r_) > 1 and abs(r_[0] / r_[1] - math.sqrt(2)) < 1e-9

    def bad(service, clause, detail, **kw):
        mech = {'service': service, 'clause': clause, 'grid_origin': grid.origin, 'gclass': spec['gclass'],
                'lclass': spec['lclass'], 'extent_smaller_than_grid': bool(clip), 'tms_origin_opt': spec.get('tms_origin'),
                'rows_fill_bbox_on_every_level': flippable, 'sqrt2_ladder': sqrt2_ladder,
                'world_grid_with_tiles_overhanging_the_world': overhang and spec['gclass'].startswith('global')}
        mech.update(kw)
        if run.violation(mech, dict(case, spec=spec), detail) != 'known':
            count['bad'] += 1

    def fetch_and_judge(service, url, rect, size, cls, headers=None, monitor=None, **kw):
        n0 = upstream.UP.n
        r = sc.get(url, headers=headers)
        offg = max([c.extra.get('offgrid', 0.0) for c in upstream.UP.log if c.n > n0] + [0.0])
        if offg > 1e-9:
            offgrid_addrs.add(url)
        run.judge((service, gcls) + cls, nontrivial=True)
        if monitor:
            run.hit(monitor)
        if r.code != 200 or not r.content_type.startswith('image/'):
            bad(service, 'advertised_address_refused', '%s -> %d %s %r for advertised rectangle %r' % (
                url, r.code, r.content_type, r.body[:160], rect), **kw)
            return None
        note_stretched(n0)
        if offg > 0.02 or touches_stretched(rect):
            # the sub-image at a coverage edge was requested at a stretched resolution; the NOISE picture is defined
            # per level, so the expectation is undefined here (placement accuracy of sub-images is C01's subject)
            run.dc('tile_built_from_a_stretched_sub_request_at_the_coverage_edge')
            return r
        ok, detail, n, lv = judge_rect(lat, rect, size, r.image(), clip, tolerant=bool(clip))
        if n == 0:
            run.dc('tile_without_interior_pixel')
        if not ok:
            bad(service, 'wrong_rectangle', '%s: advertised rectangle %r: %s' % (url, tuple(round(v, 6) for v in rect), detail), **kw)
        return r

    # ---- TMS -------------------------------------------------------------------------------------------------
    try:
        root = caps.tms_root(sc.get('/tms/1.0.0/').body)
        for tmref in root:
            path = urllib.parse.urlsplit(tmref['href']).path
            tm = caps.tms_tilemap(sc.get(path).body)
            for ts in tm['tilesets']:
                nx, ny = caps.tms_extent_tiles(tm, ts)
                tpath = urllib.parse.urlsplit(ts['href']).path
                for (x, y) in positions(rng, nx, ny, 3):
                    rect = caps.tms_rect(tm, ts, x, y)
                    if rect[0] > tm['bbox'][2] - ts['upp'] or rect[1] > tm['bbox'][3] - ts['upp']:
                        run.dc('last_row_or_column_covers_less_than_one_pixel')   # grid sizes floor to whole pixels
                        continue
                    # a tile of the advertised extent that lies wholly outside the real grid cannot be judged here
                    fetch_and_judge('tms', '%s/%d/%d.%s' % (tpath, x, y, tm['ext']), rect, tm['tile_size'],
                                    ('lvl%d' % min(ts['order'], 3),) + pclass(x, y, nx, ny), monitor='tms_tiles')
                    if count['bad'] > 3:
                        return
    except Exception as ex:
        import traceback
        bad('tms', 'capabilities_unusable', 'TMS capabilities could not be used: %r %s' % (ex, traceback.format_exc()[-600:]))
    # ---- /tiles with ?origin= : same ground tile through both conventions -------------------------------------------
    try:
        for tmref in root[:1]:
            path = urllib.parse.urlsplit(tmref['href']).path.replace('/tms/1.0.0/', '/tiles/')
            # /tiles addresses the TMS tile sets without the profile level shift; find each set's level by resolution
            first_upp = tm['tilesets'][0]['upp'] if tm['tilesets'] else None
            for ts in tm['tilesets']:
                lvl, off = lat.level_for(ts['upp'])
                z = ts['order'] + (1 if tm['profile'] in ('global-mercator', 'global-geodetic') else 0)
                nx, ny = grid.grid_sizes[lvl]
                for (x, y) in positions(rng, nx, ny, 1):
                    got = {}
                    for origin in ('sw', 'nw'):
                        yy = y if origin == 'sw' else ny - 1 - y
                        r = sc.get('%s/%d/%d/%d.png?origin=%s' % (path, z, x, yy, origin))
                        got[origin] = (r.code, r.body)
                    run.hit('tiles_origin_param')
                    run.judge(('tiles_origin', gcls, pclass(x, y, nx, ny)), nontrivial=True)
                    c1, c2 = got['sw'][0], got['nw'][0]
                    if c1 == 200 and c2 == 200 and got['sw'][1] != got['nw'][1]:
                        a = np.asarray(upstream.decode(got['sw'][1]).convert('RGB'))
                        b = np.asarray(upstream.decode(got['nw'][1]).convert('RGB'))
                        if a.shape != b.shape or (a != b).any():
                            bad('tiles', 'origin_conventions_disagree', '/tiles level %d column %d: row %d (sw) and row %d (nw) '
                                'of %d rows are the same ground tile by the flip rule but the images differ' % (z, x, y, ny - 1 - y, ny))
                    elif (c1 == 200) != (c2 == 200):
                        run.dc('one_origin_refused')
    except Exception as ex:
        bad('tiles', 'exception', 'tiles origin probe raised %r' % ex)
    if count['bad'] > 3:
        return
    # ---- WMTS KVP + REST ---------------------------------------------------------------------------------------------
    for flavour, capurl in (('wmts_kvp', '/service?SERVICE=WMTS&REQUEST=GetCapabilities&VERSION=1.0.0'),
                            ('wmts_rest', '/wmts/1.0.0/WMTSCapabilities.xml')):
        try:
            r = sc.get(capurl)
            if r.code != 200:
                run.dc('wmts_capabilities_status_%d' % r.code)
                continue
            wc = caps.wmts_caps(r.body)
            if not wc['layers']:
                run.dc('wmts_offers_no_layer_for_this_grid')
                continue
            for layer in wc['layers']:
                for sname in layer['sets']:
                    ms = wc['sets'][sname]
                    code = caps.crs_code(ms['crs'])
                    nf = upstream.northing_first(code)
                    for mi, m in enumerate(ms['matrices']):
                        for (col, row) in positions(rng, m['mw'], m['mh'], 2):
                            rect = caps.wmts_rect(code, m, col, row, nf, code == 'EPSG:4326')
                            if flavour == 'wmts_kvp':
                                url = ('/service?SERVICE=WMTS&REQUEST=GetTile&VERSION=1.0.0&LAYER=%s&STYLE=%s&TILEMATRIXSET=%s&'
                                       'TILEMATRIX=%s&TILEROW=%d&TILECOL=%d&FORMAT=%s' % (
                                           layer['id'], (layer['styles'] or ['default'])[0] or 'default', sname, m['id'], row, col,
                                           urllib.parse.quote(layer['formats'][0])))
                            else:
                                if not layer['templates']:
                                    continue
                                t = urllib.parse.urlsplit(layer['templates'][0]).path
                                t = urllib.parse.unquote(t)
                                url = (t.replace('{TileMatrixSet}', sname).replace('{TileMatrix}', str(m['id']))
                                       .replace('{TileCol}', str(col)).replace('{TileRow}', str(row)))
                                if '{' in url:
                                    url = re.sub(r'\{[^}]+\}', 'default', url)
                            fetch_and_judge(flavour, url, rect, (m['tw'], m['th']),
                                            ('lvl%d' % min(mi, 3),) + pclass(col, row, m['mw'], m['mh']),
                                            monitor=flavour + '_tiles')
                            if count['bad'] > 3:
                                return
        except Exception as ex:
            import traceback
            bad(flavour, 'capabilities_unusable', '%s capabilities could not be used: %r %s' % (flavour, ex, traceback.format_exc()[-600:]))
    # ---- WMS-C -----------------------------------------------------------------------------------------------------------
    try:
        r = sc.get('/service?SERVICE=WMS&REQUEST=GetCapabilities&VERSION=1.1.1&tiled=true')
        for ts in caps.wmsc_tilesets(r.body):
            for ri, res in enumerate(ts['res']):
                nx = max(1, math.ceil((ts['bbox'][2] - ts['bbox'][0]) / (ts['w'] * res) - 1e-9))
                ny = max(1, math.ceil((ts['bbox'][3] - ts['bbox'][1]) / (ts['h'] * res) - 1e-9))
                for (col, row) in positions(rng, nx, ny, 1):
                    rect = caps.wmsc_rect(ts, res, col, row)
                    if rect[0] > ts['bbox'][2] - res or rect[1] > ts['bbox'][3] - res:
                        run.dc('last_row_or_column_covers_less_than_one_pixel')
                        continue
                    url = ('/service?SERVICE=WMS&VERSION=1.1.1&REQUEST=GetMap&LAYERS=%s&STYLES=&SRS=%s&BBOX=%s&WIDTH=%d&HEIGHT=%d'
                           '&FORMAT=%s&TILED=true' % (ts['layers'], ts['srs'], ','.join(repr(v) for v in rect), ts['w'], ts['h'],
                                                      urllib.parse.quote(ts['format'])))
                    fetch_and_judge('wmsc', url, rect, (ts['w'], ts['h']), ('lvl%d' % min(ri, 3),) + pclass(col, row, nx, ny),
                                    monitor='wmsc_tiles')
                    if count['bad'] > 3:
                        return
    except Exception as ex:
        import traceback
        bad('wmsc', 'capabilities_unusable', 'WMS-C capabilities could not be used: %r %s' % (ex, traceback.format_exc()[-600:]))
    # ---- KML ----------------------------------------------------------------------------------------------------------------
    try:
        import pyproj
        tr = pyproj.Transformer.from_crs('EPSG:4326', srs if srs != 'EPSG:900913' else 'EPSG:3857', always_xy=True)
        name = urllib.parse.urlsplit(root[0]['href']).path.replace('/tms/1.0.0/', '') if root else None
        todo = ['/kml/%s/0/0/0.kml' % name] if name else []
        seen_docs = 0
        while todo and seen_docs < 4:
            u = todo.pop(0)
            r = sc.get(u)
            if r.code != 200:
                run.dc('kml_status_%d' % r.code)
                break
            seen_docs += 1
            doc = caps.kml_doc(r.body)
            for ov in doc['overlays'][:4]:
                b = ov['box']
                merc = srs in ('EPSG:3857', 'EPSG:900913')
                # MapProxy prints +-90 for the mercator world edge; everything else is a plain transformation
                so = -85.0511287798066 if (merc and b['south'] <= -89.9999) else b['south']
                no = 85.0511287798066 if (merc and b['north'] >= 89.9999) else b['north']
                x0, y0 = tr.transform(b['west'], so)
                x1, y1 = tr.transform(b['east'], no)
                rect = (x0, y0, x1, y1)
                href = urllib.parse.urlsplit(ov['href']).path
                n0k = upstream.UP.n
                rr = sc.get(href)
                note_stretched(n0k)
                if touches_stretched(rect):
                    run.dc('tile_built_from_a_stretched_sub_request_at_the_coverage_edge')
                    continue
                run.hit('kml_tiles')
                run.judge(('kml', gcls), nontrivial=True)
                if rr.code != 200:
                    bad('kml', 'advertised_address_refused', '%s -> %d' % (href, rr.code))
                    continue
                img = rr.image()
                # the overlay stretches the image over the LatLonBox: the image's pixel grid over that box must be a level
                resx = (rect[2] - rect[0]) / img.size[0]
                lv, off = lat.level_for(resx)
                if srs == 'EPSG:4326' or srs in ('EPSG:3857', 'EPSG:900913'):
                    if off > 2e-3:
                        run.dc('kml_box_limited_to_grid_bbox')   # limit=True boxes at the grid border
                        continue
                    # snap to the pixel lattice: %f prints 6 decimals of a degree
                    ok, detail, n, lv = judge_rect_snap(lat, rect, img, clip)
                    if not ok:
                        bad('kml', 'wrong_rectangle', '%s: LatLonBox %r -> %r: %s' % (href, b, tuple(round(v, 3) for v in rect), detail))
                else:
                    run.dc('kml_grid_not_rectangular_in_wgs84')
            for nl in doc['links'][:2]:
                todo.append(urllib.parse.urlsplit(nl['href']).path)
    except Exception as ex:
        import traceback
        bad('kml', 'capabilities_unusable', 'KML documents could not be used: %r %s' % (ex, traceback.format_exc()[-600:]))
    if case['i'] % 3 == 0 or run.replaying:
        try:
            root_ = root
        except NameError:
            root_ = []
        concurrent_capabilities(run, sc, bad, root_)
    run.hit('scenarios')
    run.count('upstream_calls', len(upstream.UP.log))
    upstream.UP.reset_log()
    if case['i'] < 3:
        run.sample({'spec': spec, 'tms_tilemaps': [t['href'] for t in root], 'levels': grid.levels,
                    'grid_sizes': [list(grid.grid_sizes[z]) for z in range(min(grid.levels, 4))]})


def judge_rect_snap(lat, rect, img, clip):
    """KML boxes are printed with 6 decimals of a degree: snap the rectangle to the nearest pixel lattice position"""
    w, h = img.size
    resx = (rect[2] - rect[0]) / w
    lv, off = lat.level_for(resx)
    r = lat.res[lv]
    x0 = lat.bbox[0] + round((rect[0] - lat.bbox[0]) / r) * r
    if lat.ul:
        y1 = lat.bbox[3] - round((lat.bbox[3] - rect[3]) / r) * r
    else:
        y1 = lat.bbox[1] + round((rect[3] - lat.bbox[1]) / r) * r
    if abs(x0 - rect[0]) > 0.3 * r or abs(y1 - rect[3]) > 0.3 * r:
        return False, 'LatLonBox corner is %.2f / %.2f px off the pixel lattice' % ((rect[0] - x0) / r, (rect[3] - y1) / r), 0, lv
    snapped = (x0, y1 - h * r, x0 + w * r, y1)
    return judge_rect(lat, snapped, (w, h), img, clip, tolerant=bool(clip))


if __name__ == '__main__':
    core.main(sys.modules[__name__])
