"""C14 - layers composite in order with correct alpha; shortcuts never change the picture.

Generated WMS configurations (direct WMS sources with req.transparent true/false, opacity, colour keys, coverages with
and without clip, resolution ranges; png caches; groups with and without own sources; same-URL and different-URL
sources; concurrent_layer_renderer 1/4) are loaded through the real loader TWICE: as generated ("plain") and as a twin
in which the optimisations are defeated by configuration only ("defeated": every source on its own upstream host so
nothing combines, every direct source declared `image.transparent: true` so nothing is considered opaque, and a fully
transparent extra top layer in the request so the single-layer path never applies).  The LAYERS upstream delivers
position-determined RGBA/RGB/P pictures; the oracle recomputes every individual layer image from the same function,
applies opacity / colour key / coverage / resolution range from the CONFIGURATION (not from mapproxy objects) and
composes them bottom-to-top with the float 'over' compositor of vlib/compose.py."""
import os
import shutil
import sys

import numpy as np

from vlib import core, upstream, scenario, compose, layersup

PID = 'C14'
LEVEL = 'exploration'
BUDGET_S = {'quick': 40, 'thorough': 540}
# floors = 30-40% of what seed 0 reaches on the tree as found, where the diagnosis of the many failures eats ~60% of the
# budget (quick: 1240 pairs on an idle machine, 840 with other checks running; thorough: 28900 pairs); on a repaired tree
# the same budget yields about six times as much (quick 7000 pairs, thorough 58000)
FLOORS = {'quick': {'pairs': 1900, 'pixels_judged': 10000000, 'single_layer_requests': 900, 'combined_requests_observed': 270,
                    'pruned_requests_observed': 160, 'opacity_layers': 800, 'colorkey_layers': 450, 'clip_layers': 270,
                    'group_requests': 320, 'cache_layers': 400, 'alpha_judged': 750, 'res_hidden_layers': 700,
                    'fmt_png8': 240, 'fmt_jpeg': 240, 'fmt_tiff': 270, 'concurrent_rounds': 80, 'concurrent_responses_compared': 6000,
                    'auth_requests': 150, 'auth_requests_with_denied_layer': 80, 'auth_requests_with_limited_layer': 80,
                    'auth_requests_limiting_a_polygon_clipped_layer': 25, 'service_extent_cut_requests': 150},
          'thorough': {'pairs': 11000, 'pixels_judged': 65000000, 'single_layer_requests': 5600,
                       'combined_requests_observed': 1900, 'pruned_requests_observed': 780, 'opacity_layers': 4000,
                       'colorkey_layers': 3200, 'clip_layers': 2000, 'group_requests': 2000, 'cache_layers': 2900,
                       'alpha_judged': 4900, 'res_hidden_layers': 3800, 'fmt_png8': 1700, 'fmt_jpeg': 1600, 'fmt_tiff': 1600,
                       'auth_requests': 700, 'auth_requests_with_denied_layer': 450, 'auth_requests_with_limited_layer': 350,
                       'auth_requests_limiting_a_polygon_clipped_layer': 120, 'service_extent_cut_requests': 900}}
RULE = ("case = one generated configuration (3-7 direct WMS sources, 0-2 png caches, 3-8 named layers incl. groups) with "
        "8-12 GetMap requests of 1-5 layers; every request is issued against the plain and the defeated twin "
        "configuration (= one pair) and both answers are compared with the reference composition and with each other. "
        "evaluations = image comparisons; distinct = (number of requested layers, sorted feature set of the drawn items, "
        "TRANSPARENT flag, format, shortcut observed in the plain run: single|combined|pruned|none); non-trivial = at "
        "least one layer is drawn")
ASSUMPTIONS = [
    "individual layer image = picture of the LAYERS upstream for the same bbox/size (ground-position function, requests "
    "pixel-aligned, request SRS = source SRS, no resampling), flattened on white when the source says req.transparent false",
    "reference = straight-alpha float 'over'; colour compared premultiplied by alpha (colour under alpha ~0 is not "
    "observable), alpha compared as such when TRANSPARENT=true",
    "tolerance for png/tiff: 2 + number of blend steps levels (8-bit rounding per step); png8 (256-colour quantiser): 99% of "
    "the judged pixels within 32 levels and mean <= 5; jpeg: the reference is passed through a baseline JPEG encoder of "
    "the configured quality (90) first, then 98% of the judged pixels within 40 levels and mean <= 6 (calibrated: passing "
    "answers have max <= 10 / mean <= 1, failing ones mean >= 15); JPEG blocks touching unjudged pixels are not judged",
    "pixels within 1.5 px of a polygon coverage boundary, and pixels outside a non-clipping polygon but inside its "
    "bounding box, are not judged (rasteriser freedom / documented 'serves full source image')",
    "a coverage without clip limits the source to the coverage's bounding box; group sources replace the children's "
    "sources (doc/configuration.rst); min_res/max_res never equal to a request resolution",
    "the same layer / source / cache is never drawn twice in one request, a group never together with its own descendants "
    "(the service keeps one entry per layer name; WMS semantics of duplicates are outside the statement)",
    "the defeated twin differs from the plain configuration only in upstream host names and in `image.transparent: true` on "
    "direct sources (what is asked upstream stays req.transparent), plus the transparent top layer `ztop` in the request",
    "a failing request is shrunk before it is reported: requested layers are dropped and optional configuration features "
    "(opacity, colour key, coverage, clip, resolution ranges, extra sources, group children, format, bgcolor) are removed "
    "one at a time - by regenerating and reloading both configurations - as long as the same kind of failure (same wrong "
    "variants, same observed shortcuts) remains; `mech` describes the shrunk case",
    "caches: meta_size 1, no buffer, nearest resampling, requests cover whole tiles of one level",
]

SRS = 'EPSG:3857'
OX, OY = 401408.0, 5599232.0          # multiples of 4096
WORLD = (OX, OY, OX + 8192.0, OY + 8192.0)
GRID_RES = [16.0, 8.0, 4.0, 2.0]
TILE = 32
FORMATS = {'png': 'image/png', 'png8': 'image/png; mode=8bit', 'jpeg': 'image/jpeg', 'tiff': 'image/tiff'}
TWIN_HOSTS = ['t%d' % i for i in range(24)]
AVOID = set(x for x in os.environ.get('C14_AVOID', '').split(',') if x)


def setup_shard(run):
    up = upstream.install()
    h = layersup.LayersWMS(SRS)
    for host in ['wmsa', 'wmsb', 'ttop'] + ['wmsu%d' % i for i in range(8)] + TWIN_HOSTS:
        up.register(host, h)


# ---- generation -----------------------------------------------------------------------------------------------------

def gen_cov(rng, F):
    """coverage around the focus point F; every bbox / polygon bound is a multiple of 16 (pixel edge at every resolution)"""
    kind = rng.choice(['bbox', 'bbox', 'poly'])
    clip = rng.random() < 0.5
    place = rng.choice(['edge', 'edge', 'edge', 'contains', 'far', 'small', 'cut_corner'])
    u = 16.0
    if place == 'cut_corner':
        # the focus lies inside the bounding box of a polygon but in the corner the polygon leaves out
        kind = 'poly'
        rect = [F[0] - 15 * u, F[1] - 15 * u, F[0] + 135 * u, F[1] + 135 * u]
    elif place == 'contains':
        rect = [WORLD[0] + 16, WORLD[1] + 16, WORLD[2] - 16, WORLD[3] - 16]
    elif place == 'far':
        rect = [WORLD[0] + 16, WORLD[1] + 16, WORLD[0] + 16 + 160, WORLD[1] + 16 + 160]
    elif place == 'small':
        x0 = F[0] + u * rng.randint(-4, 2)
        y0 = F[1] + u * rng.randint(-4, 2)
        rect = [x0, y0, x0 + u * rng.randint(1, 5), y0 + u * rng.randint(1, 5)]
    else:
        # one corner near F, extends far into one quadrant
        cx = F[0] + u * rng.randint(-3, 3)
        cy = F[1] + u * rng.randint(-3, 3)
        dx = rng.choice([-1, 1]) * u * rng.choice([6, 40, 150])
        dy = rng.choice([-1, 1]) * u * rng.choice([6, 40, 150])
        rect = [min(cx, cx + dx), min(cy, cy + dy), max(cx, cx + dx), max(cy, cy + dy)]
    rect = [max(rect[0], WORLD[0]), max(rect[1], WORLD[1]), min(rect[2], WORLD[2]), min(rect[3], WORLD[3])]
    cov = {'kind': kind, 'clip': clip, 'bbox': rect, 'place': place}
    if kind == 'poly':
        # polygon whose bounds are exactly rect: cut two corners of the rectangle
        x0, y0, x1, y1 = rect
        w, h = x1 - x0, y1 - y0
        a = rng.choice([0.25, 0.5, 0.75])
        b = rng.choice([0.25, 0.5, 0.75])
        if place == 'cut_corner':
            a = b = 0.5
        pts = [(x0 + a * w, y0), (x1, y0), (x1, y0 + b * h), (x1 - a * w, y1), (x0, y1), (x0, y1 - b * h)]
        cov['wkt'] = 'POLYGON((%s))' % ', '.join('%r %r' % p for p in pts + [pts[0]])
    return cov


def gen_source(rng, i, F, for_cache=False):
    kind = rng.choice(['rgba', 'rgba', 'rgba', 'rgb', 'pal', 'key', 'trns'])
    s = {'id': ('cs%d' if for_cache else 's%d') % i, 'url': rng.choice(['A', 'A', 'A', 'A', 'B', 'B', 'U%d' % (i % 8)]),
         'opacity': None, 'key': None,
         'cov': None, 'min_res': None, 'max_res': None}
    seed = rng.randrange(1, 100000)
    if kind == 'key':
        tol = rng.choice([0, 3, 10, 25])
        s['up'] = 'key%dt%d' % (seed, tol)
        s['key'] = {'color': [int(v) for v in layersup.key_color(s['up'])], 'tol': tol}
        s['transparent'] = rng.random() < 0.2
    else:
        s['up'] = '%s%d' % (kind, seed)
        s['transparent'] = (rng.random() < 0.75) if kind != 'rgb' else (rng.random() < 0.3)
        if kind in ('rgba', 'pal') and not for_cache and rng.random() < 0.12:
            # colour key on a picture that has its own alpha / white key on a white-flattened picture
            if s['transparent']:
                pal = layersup.spec(s['up'])['pal']
                s['key'] = {'color': [int(v) for v in pal[rng.randrange(8)][:3]], 'tol': rng.choice([0, 5])}
            else:
                s['key'] = {'color': [255, 255, 255], 'tol': rng.choice([0, 5])}
    s['kind'] = kind
    if for_cache:
        s['key'] = None if kind != 'key' else s['key']
        if kind == 'key':       # keep cache sources simple: no colour key
            s['key'] = None
        return s
    if rng.random() < 0.35:
        s['opacity'] = rng.choice([0.25, 0.5, 0.5, 0.75, 0.9, 0.0])
        if s['opacity'] == 0.0 and rng.random() < 0.6:
            s['opacity'] = 0.4
    if rng.random() < 0.4:
        s['cov'] = gen_cov(rng, F)
        if s['cov']['place'] == 'cut_corner' and s['opacity'] is None and rng.random() < 0.6:
            s['transparent'] = False        # an opaque source that does not cover the request although its bounding box does
    r = rng.random()
    if r < 0.15:
        s['min_res'] = rng.choice([3.0, 6.0, 12.0])
    elif r < 0.25:
        s['max_res'] = rng.choice([3.0, 6.0, 12.0])
    # debugging aid only (never set by ./check): C14_AVOID=opacity,clip_bbox,... keeps features out of the generated
    # configurations so that failures behind an already known one can be looked at
    if 'opacity' in AVOID:
        s['opacity'] = None
    if 'clip_bbox' in AVOID and s['cov'] and s['cov']['kind'] == 'bbox':
        s['cov']['clip'] = False
    if 'mixed' in AVOID and not s['transparent']:
        s['url'] = 'U%d' % (i % 8)          # sources declared opaque are never combined with a neighbour
    if 'res' in AVOID:
        s['min_res'] = s['max_res'] = None
    return s


def gen_spec(rng):
    F = [OX + 512.0 * rng.randint(3, 12), OY + 512.0 * rng.randint(3, 12)]
    nsrc = rng.randint(3, 7)
    sources = [gen_source(rng, i, F) for i in range(nsrc)]
    pair = None
    if rng.random() < 0.6:
        # two sources that the code may combine into one upstream request: same URL, no opacity, same (or no)
        # coverage, both transparent; they are put into one layer / neighbouring layers below
        a, b = rng.sample(range(nsrc), 2)
        sa, sb = sources[a], sources[b]
        sb['url'] = sa['url']
        sa['opacity'] = sb['opacity'] = None
        sb['cov'] = _copy(sa['cov']) if sa['cov'] and not (sa['cov']['kind'] == 'bbox' and sa['cov']['clip']) else None
        if sb['cov'] is None:
            sa['cov'] = None
        if rng.random() < 0.7:
            sb['key'] = _copy(sa['key']) if sa['key'] and sb['kind'] == sa['kind'] else None
            if sb['key'] is None:
                sa['key'] = None
        if rng.random() < 0.7:
            sa['transparent'] = sb['transparent'] = True
        pair = [sa['id'], sb['id']]
    caches = []
    k = 0
    for ci in range(rng.choice([0, 0, 1, 1, 2])):
        cs = []
        for _ in range(rng.choice([1, 1, 2])):
            cs.append(gen_source(rng, k, F, for_cache=True))
            k += 1
        c = {'id': 'c%d' % ci, 'sources': cs, 'opacity': None}
        if rng.random() < 0.2 and 'opacity' not in AVOID:
            c['opacity'] = rng.choice([0.3, 0.6])
        caches.append(c)
    items = [s['id'] for s in sources] + [c['id'] for c in caches]
    names = {'n': 0}

    def leaf():
        n = rng.choice([1, 1, 1, 2])
        node = {'name': 'L%d' % names['n'], 'sources': [rng.choice(items) for _ in range(n)]}
        names['n'] += 1
        if rng.random() < 0.12 and 'res' not in AVOID:
            if rng.random() < 0.5:
                node['min_res'] = rng.choice([3.0, 6.0, 12.0])
            else:
                node['max_res'] = rng.choice([3.0, 6.0, 12.0])
        return node

    def group(depth):
        node = {'name': 'G%d' % names['n'], 'layers': []}
        names['n'] += 1
        for _ in range(rng.randint(1, 3)):
            node['layers'].append(group(depth + 1) if depth < 1 and rng.random() < 0.2 else leaf())
        if rng.random() < 0.45:
            node['sources'] = [rng.choice(items) for _ in range(rng.choice([1, 1, 2]))]
            if rng.random() < 0.2 and 'res' not in AVOID:
                node['min_res'] = rng.choice([3.0, 6.0, 12.0])
            if 'group_own' in AVOID:
                del node['sources']
        return node

    tree = []
    for _ in range(rng.randint(3, 6)):
        tree.append(group(0) if rng.random() < 0.3 else leaf())
    if pair:
        if rng.random() < 0.5:
            tree.append({'name': 'L%d' % names['n'], 'sources': list(pair)})
            names['n'] += 1
        else:
            tree.append({'name': 'G%d' % names['n'], 'layers': [{'name': 'L%d' % (names['n'] + 1), 'sources': [pair[0]]},
                                                                 {'name': 'L%d' % (names['n'] + 2), 'sources': [pair[1]]}]})
            names['n'] += 3
    spec = {'F': F, 'sources': sources, 'caches': caches, 'tree': tree, 'clr': rng.choice([1, 4])}
    if rng.random() < 0.25 and 'extent' not in AVOID:
        # the service extent (wms.bbox_srs) cuts through the requests: the service renders the part inside and pastes it
        # into the answer; edges are multiples of 16 (pixel edges at every resolution), the focus stays inside
        ext = list(WORLD)
        sides = rng.sample([0, 1, 2, 3], rng.choice([1, 1, 2]))
        for sd in sides:
            if sd < 2:
                ext[sd] = F[sd] - 16.0 * rng.choice([0, 1, 2, 4, 9])
            else:
                ext[sd] = F[sd - 2] + 16.0 * rng.choice([1, 2, 4, 9])
        spec['extent'] = ext
    return spec


def walk(tree, parents=()):
    for node in tree:
        yield node, parents
        if node.get('layers'):
            for x in walk(node['layers'], parents + (node['name'],)):
                yield x


def gen_requests(rng, spec, n):
    nodes = list(walk(spec['tree']))
    anc = {node['name']: set(par) for node, par in nodes}
    names = [node['name'] for node, par in nodes]
    cache_ids = set(c['id'] for c in spec['caches'])

    def uses_cache(node):
        if any(i in cache_ids for i in node.get('sources', [])):
            return True
        return any(uses_cache(ch) for ch in node.get('layers', []))
    cachey = {node['name']: uses_cache(node) for node, par in nodes}
    reqs = []
    F = spec['F']
    for _ in range(n):
        k = rng.choice([1, 1, 1, 2, 2, 2, 3, 3, 4, 5])
        chosen = []
        pool = names[:]
        rng.shuffle(pool)
        used = set()
        for nm in pool:
            if len(chosen) >= k:
                break
            if any(nm in anc[c] or c in anc[nm] for c in chosen):
                continue
            nd, sids, cids = involved(spec, [nm])
            its = sids + cids
            byn = {node['name']: node for node, par in nodes}
            raw = []
            for x in nd:
                raw += byn[x].get('sources', [])
            if len(raw) != len(set(raw)) or used & set(its):
                continue        # the same source / cache is never drawn twice in one request
            used |= set(its)
            chosen.append(nm)
        if not chosen:
            continue
        fmt = rng.choice(['png', 'png', 'png', 'png', 'tiff', 'png8', 'jpeg'])
        transparent = rng.random() < 0.5 and fmt != 'jpeg'
        bg = None
        if rng.random() < 0.6:
            bg = '0x%02x%02x%02x' % (rng.choice([0, 30, 128, 200, 255]), rng.choice([0, 90, 255]), rng.choice([0, 160, 255]))
        res = rng.choice(GRID_RES)
        if any(cachey[c] for c in chosen):
            tw, th = rng.choice([1, 2, 2, 3]), rng.choice([1, 2, 2])
            size = [TILE * tw, TILE * th]
            x0 = F[0] - TILE * res * rng.randint(0, tw)
            y0 = F[1] - TILE * res * rng.randint(0, th)
        else:
            size = [rng.randint(16, 90), rng.randint(16, 90)]
            x0 = F[0] - res * rng.randint(0, size[0])
            y0 = F[1] - res * rng.randint(0, size[1])
        bbox = [x0, y0, x0 + size[0] * res, y0 + size[1] * res]
        reqs.append({'layers': chosen, 'format': fmt, 'transparent': transparent, 'bgcolor': bg, 'bbox': bbox, 'size': size})
    return reqs


# ---- configuration ----------------------------------------------------------------------------------------------------

def source_conf(s, d, twin, idx, for_cache=False):
    if twin:
        url = 'http://%s/service?' % TWIN_HOSTS[idx % len(TWIN_HOSTS)]
    else:
        url = 'http://wms%s/service?' % s['url'].lower()
    c = {'type': 'wms', 'req': {'url': url, 'layers': s['up'], 'transparent': bool(s['transparent']), 'format': 'image/png'}}
    img = {}
    if s.get('opacity') is not None:
        img['opacity'] = s['opacity']
    if s.get('key'):
        img['transparent_color'] = '#%02x%02x%02x' % tuple(s['key']['color'])
        img['transparent_color_tolerance'] = s['key']['tol']
    if twin and not for_cache:
        img['transparent'] = True
    if img:
        c['image'] = img
    if s.get('cov'):
        cov = s['cov']
        if cov['kind'] == 'bbox':
            c['coverage'] = {'bbox': list(cov['bbox']), 'srs': SRS}
        else:
            p = os.path.join(d, 'cov_%s.wkt' % s['id'])
            with open(p, 'w') as f:
                f.write(cov['wkt'] + '\n')
            c['coverage'] = {'datasource': p, 'srs': SRS}
        if cov['clip']:
            c['coverage']['clip'] = True
    if s.get('min_res'):
        c['min_res'] = s['min_res']
    if s.get('max_res'):
        c['max_res'] = s['max_res']
    return c


def build(spec, d, twin):
    os.makedirs(d, exist_ok=True)
    conf = scenario.base_conf(image={'jpeg_quality': JPEG_QUALITY})
    conf['services'] = {'wms': {'srs': [SRS], 'image_formats': list(FORMATS.values()), 'md': {'title': 'c14'},
                                'concurrent_layer_renderer': spec['clr']}}
    if spec.get('extent'):
        conf['services']['wms']['bbox_srs'] = [{'srs': SRS, 'bbox': list(spec['extent'])}]
    conf['grids']['g'] = {'srs': SRS, 'bbox': list(WORLD), 'tile_size': [TILE, TILE], 'res': GRID_RES, 'origin': 'll'}
    idx = 0
    for s in spec['sources']:
        conf['sources'][s['id']] = source_conf(s, d, twin, idx)
        idx += 1
    for c in spec['caches']:
        for s in c['sources']:
            conf['sources'][s['id']] = source_conf(s, d, twin, idx, for_cache=True)
            idx += 1
        cc = {'grids': ['g'], 'sources': [s['id'] for s in c['sources']], 'format': 'image/png',
              'request_format': 'image/png'}
        if c.get('opacity') is not None:
            cc['image'] = {'opacity': c['opacity']}
        conf['caches'][c['id']] = cc
    conf['sources']['ztop'] = {'type': 'wms', 'req': {'url': 'http://ttop/service?', 'layers': 'blank', 'transparent': True,
                                                       'format': 'image/png'}}

    def lconf(node):
        lc = {'name': node['name'], 'title': node['name']}
        if node.get('sources'):
            lc['sources'] = list(node['sources'])
        for k in ('min_res', 'max_res'):
            if node.get(k):
                lc[k] = node[k]
        if node.get('layers'):
            lc['layers'] = [lconf(ch) for ch in node['layers']]
        return lc
    conf['layers'] = [lconf(n) for n in spec['tree']] + [{'name': 'ztop', 'title': 'ztop', 'sources': ['ztop']}]
    return scenario.Scenario(d, conf)


# ---- oracle: configuration semantics -> draw list -> reference picture ----------------------------------------------

def res_visible(obj, res):
    if obj.get('min_res') and not res < obj['min_res']:
        return False
    if obj.get('max_res') and not res > obj['max_res']:
        return False
    return True


def draw_items(spec, layer_names, res, notes=None, denied=(), owners=None):
    """ordered list of (item id, via) that the configuration says is drawn for LAYERS=layer_names at resolution res;
    notes (a set) receives 'layer_res_hidden' / 'group_layer_res_hidden' when a layer's own min/max_res hides it;
    layers named in `denied` (authorization) are left out; owners (a list) receives the layer name of every item"""
    byname = {node['name']: node for node, par in walk(spec['tree'])}
    out = []

    def add(node, via):
        if node['name'] in denied:
            return
        if node.get('sources'):
            # a layer with own sources draws these (they replace the children's); its min/max_res applies
            if not res_visible(node, res):
                if notes is not None:
                    notes.add('group_layer_res_hidden' if node.get('layers') else 'layer_res_hidden')
                return
            multi = len(node['sources']) > 1
            for it in node['sources']:
                out.append((it, via + (('group_own',) if node.get('layers') else ()) + (('multi_src',) if multi else ())))
                if owners is not None:
                    owners.append(node['name'])
            return
        for ch in node.get('layers', []):
            add(ch, via + ('group_kids',))
    for nm in layer_names:
        add(byname[nm], ())
    return out


def source_picture(s, bbox, size, res):
    """(F-image | None, dontcare mask, feature set, blend steps) of one configured WMS source"""
    feats = set()
    h, w = size[1], size[0]
    dc = np.zeros((h, w), dtype=bool)
    if s.get('min_res') or s.get('max_res'):
        if not res_visible(s, res):
            return None, dc, set(['res_hidden']), 0
        feats.add('res_range')
    cov = s.get('cov')
    if cov:
        r = cov['bbox']
        if not (r[0] < bbox[2] and r[2] > bbox[0] and r[1] < bbox[3] and r[3] > bbox[1]):
            return None, dc, set(['cov_disjoint']), 0
    u8 = layersup.picture([s['up']], bbox, size, bool(s['transparent']))
    f = compose.from_u8(u8)
    feats.add('opaque' if not s['transparent'] else 'transp')
    if s['kind'] == 'pal' and s['transparent']:
        feats.add('pal')
    if s['kind'] == 'trns' and s['transparent']:
        feats.add('trns')
    if s.get('key'):
        f, m = compose.color_key(f, s['key']['color'], s['key']['tol'])
        feats.add('colorkey')
    if cov:
        if cov['kind'] == 'bbox':
            inside = compose.bbox_mask(bbox, size, cov['bbox'])
            f = compose.apply_mask(f, inside)
            feats.add('clip_bbox' if cov['clip'] else 'cov_bbox')
        else:
            import shapely.wkt
            geom = shapely.wkt.loads(cov['wkt'])
            inside, sure = compose.geom_masks(bbox, size, geom)
            if cov['clip']:
                f = compose.apply_mask(f, inside)
                dc |= ~sure
                feats.add('clip_poly')
            else:
                inb = compose.bbox_mask(bbox, size, cov['bbox'])
                f = compose.apply_mask(f, inb)
                dc |= inb & (~inside | ~sure)
                feats.add('cov_poly')
            if not inside.any():
                # the polygon may not intersect the request at all: whether the source is asked is not judged
                feats.add('cov_touch')
    if s.get('opacity') is not None:
        f = compose.with_opacity(f, s['opacity'])
        feats.add('opacity0' if s['opacity'] == 0 else 'opacity')
    return f, dc, feats, 1


def reference(spec, req, denied=(), limits=None):
    """reference for one request; where the service extent (wms.bbox_srs) cuts the request, the picture is the
    composition for the part inside (layers that only touch the part outside take no part in it), the rest is background"""
    ext = spec.get('extent')
    b, size = req['bbox'], req['size']
    if not ext or (b[0] >= ext[0] and b[1] >= ext[1] and b[2] <= ext[2] and b[3] <= ext[3]):
        return _reference(spec, req, denied, limits)
    res = (b[2] - b[0]) / float(size[0])
    eb = [max(b[0], ext[0]), max(b[1], ext[1]), min(b[2], ext[2]), min(b[3], ext[3])]
    ox, oy = int(round((eb[0] - b[0]) / res)), int(round((b[3] - eb[3]) / res))
    sw, sh = int(round((eb[2] - eb[0]) / res)), int(round((eb[3] - eb[1]) / res))
    bg = None
    if not req['transparent']:
        bg = layersup.parse_bgcolor(req['bgcolor']) if req['bgcolor'] else (255, 255, 255)
    exp = compose.blank(size, bg)
    dc = np.zeros((size[1], size[0]), dtype=bool)
    if sw <= 0 or sh <= 0:
        return {'exp': exp, 'dc': dc, 'steps': 0, 'feats': set(['service_extent_cut']), 'drawn': 0, 'direct_names': [], 'res': res}
    sub = dict(req, bbox=eb, size=[sw, sh])
    r = _reference(spec, sub, denied, limits)
    exp[oy:oy + sh, ox:ox + sw] = r['exp']
    dc[oy:oy + sh, ox:ox + sw] = r['dc']
    r['feats'].add('service_extent_cut')
    r['exp'], r['dc'] = exp, dc
    return r


def _reference(spec, req, denied=(), limits=None):
    """reference composition for one request: dict(exp F-image, dc mask, steps, feats, items, direct_names);
    denied = layer names the authorization removes, limits = {layer name: rect in the request SRS} it clips to"""
    bbox, size = req['bbox'], req['size']
    res = (bbox[2] - bbox[0]) / float(size[0])
    srcs = {s['id']: s for s in spec['sources']}
    caches = {c['id']: c for c in spec['caches']}
    h, w = size[1], size[0]
    dc = np.zeros((h, w), dtype=bool)
    layers = []
    feats = set()
    steps = 0
    direct_names = []        # upstream layer names of direct sources that are drawn (for pruning observation)
    drawn = 0
    owners = []
    for k_, (it, via) in enumerate(draw_items(spec, req['layers'], res, feats, denied=denied, owners=owners)):
        if it in srcs:
            f, d, ft, st = source_picture(srcs[it], bbox, size, res)
            if f is not None and 'cov_touch' not in ft:
                direct_names.append(srcs[it]['up'])
        else:
            c = caches[it]
            subs = []
            st = 0
            ft = set(['cache'])
            d = np.zeros((h, w), dtype=bool)
            for cs in c['sources']:
                sf, sd, sft, sst = source_picture(cs, bbox, size, res)
                if sf is not None:
                    subs.append(sf)
                    st += sst
            if len(c['sources']) > 1:
                ft.add('cache_multi')
            # a cache with an opaque source holds opaque tiles (canvas white); the sources of caches have no coverage /
            # resolution range here, so the canvas only matters when every source is transparent
            f = compose.compose(subs, size, None if all(cs['transparent'] for cs in c['sources']) else (255, 255, 255))
            f = compose.from_u8(compose.to_u8(f))       # stored as 8-bit tile
            st += 1
            if c.get('opacity') is not None:
                f = compose.with_opacity(f, c['opacity'])
                ft.add('cache_opacity')
        feats |= set(via)
        feats |= ft
        if f is None:
            continue
        if limits and owners[k_] in limits:
            rect = limits[owners[k_]]
            pw = (bbox[2] - bbox[0]) / float(w)
            inner = compose.bbox_mask(bbox, size, (rect[0] + 1.5 * pw, rect[1] + 1.5 * pw, rect[2] - 1.5 * pw, rect[3] - 1.5 * pw))
            outer = compose.bbox_mask(bbox, size, (rect[0] - 1.5 * pw, rect[1] - 1.5 * pw, rect[2] + 1.5 * pw, rect[3] + 1.5 * pw))
            f = compose.apply_mask(f, compose.bbox_mask(bbox, size, rect))
            d = d | (outer & ~inner)
            feats.add('auth_limited')
        drawn += 1
        steps += st
        dc |= d
        layers.append(f)
    if 'opaque' in feats and 'transp' in feats:
        feats.add('mixed_transparent')
    bg = None
    if not req['transparent']:
        bg = layersup.parse_bgcolor(req['bgcolor']) if req['bgcolor'] else (255, 255, 255)
    exp = compose.compose(layers, size, bg)
    return {'exp': exp, 'dc': dc, 'steps': steps, 'feats': feats, 'drawn': drawn, 'direct_names': direct_names, 'res': res}


# ---- requests and judgement ------------------------------------------------------------------------------------------

def getmap_path(req, extra_top=False):
    layers = list(req['layers']) + (['ztop'] if extra_top else [])
    fmt = FORMATS[req['format']].replace(';', '%3B').replace(' ', '%20')
    q = ('/service?SERVICE=WMS&VERSION=1.1.1&REQUEST=GetMap&LAYERS=%s&STYLES=&SRS=%s&BBOX=%s&WIDTH=%d&HEIGHT=%d&FORMAT=%s'
         '&TRANSPARENT=%s' % (','.join(layers), SRS, ','.join(repr(float(v)) for v in req['bbox']), req['size'][0],
                              req['size'][1], fmt, 'true' if req['transparent'] else 'false'))
    if req['bgcolor']:
        q += '&BGCOLOR=' + req['bgcolor']
    return q


def fetch(sc, req, extra_top):
    """(u8 RGBA | None, problem text | None, upstream calls)"""
    up = upstream.UP
    up.reset_log()
    try:
        r = sc.get(getmap_path(req, extra_top))
    except Exception as ex:
        return None, 'exception escaped the WSGI app: %s: %s' % (type(ex).__name__, str(ex)[:200]), list(up.log)
    calls = list(up.log)
    if r.code != 200 or not r.content_type.startswith('image/'):
        return None, 'HTTP %s %s: %s' % (r.code, r.content_type, r.body[:300].decode('utf-8', 'replace')), calls
    try:
        img = r.image()
    except Exception as ex:
        return None, 'undecodable image: %s' % ex, calls
    if list(img.size) != list(req['size']):
        return None, 'image size %r, requested %r' % (img.size, req['size']), calls
    f = compose.from_pil(img)
    return compose.to_u8(f), None, calls


JPEG_QUALITY = 90
LOSSY = {'png8': (32, 0.99, 5.0), 'jpeg': (40, 0.98, 6.0)}     # (level, share of pixels within it, mean) -- calibrated


def jpeg_roundtrip(f):
    """what a baseline JPEG encoder of the configured quality makes of the reference picture (the encoder is not the
    subject of C14; without this the chroma subsampling of 2-pixel stripes would need a useless tolerance)"""
    import io
    from PIL import Image
    b = io.BytesIO()
    Image.fromarray(np.ascontiguousarray(compose.to_u8(f)[..., :3]), 'RGB').save(b, 'jpeg', quality=JPEG_QUALITY)
    b.seek(0)
    out = compose.from_u8(np.asarray(Image.open(b).convert('RGB')))
    return out


def compare(u8, exp, mask, req, tol, pair=False):
    """-> (ok, text, stats); exp is an F-image. Colour premultiplied by alpha, alpha as such; a non-transparent request has
    an opaque reference, so an answer with alpha < 255 fails through the alpha difference"""
    fmt = req['format']
    if fmt == 'jpeg' and not pair:
        exp = jpeg_roundtrip(exp)
        if not mask.all():
            # a JPEG MCU (16x16 with 4:2:0 chroma) mixes unjudged pixels into its neighbours: drop every block that
            # holds an unjudged pixel, and the blocks around it (chroma upsampling crosses block borders)
            h, w = mask.shape
            H, W = (h + 15) // 16, (w + 15) // 16
            pad = np.ones((H * 16, W * 16), dtype=bool)
            pad[:h, :w] = mask
            blk = ~pad.reshape(H, 16, W, 16).all(axis=(1, 3))          # block holds an unjudged pixel
            big = np.zeros((H + 2, W + 2), dtype=bool)
            for dy in (0, 1, 2):
                for dx in (0, 1, 2):
                    big[dy:dy + H, dx:dx + W] |= blk
            blk = big[1:-1, 1:-1]
            mask = mask & ~np.repeat(np.repeat(blk, 16, axis=0), 16, axis=1)[:h, :w]
    dcol, da = compose.diff_premultiplied(u8, exp)
    d = dcol if fmt == 'jpeg' else np.maximum(dcol, da)
    n = int(mask.sum())
    if n == 0:
        return True, '', {'n': 0}
    dm = d[mask]
    if fmt in ('png', 'tiff'):
        lim = tol
        ok = bool((dm <= tol).all())
    else:
        lim, share, mean = LOSSY[fmt]
        ok = bool((dm <= lim).mean() >= share and dm.mean() <= mean)
    stats = {'n': n, 'max': float(dm.max()), 'mean': float(dm.mean())}
    if os.environ.get('C14_STATS') and fmt not in ('png', 'tiff'):
        with open(os.environ['C14_STATS'], 'a') as fh:
            fh.write('%s %d %d %.2f %.2f %.4f %.4f %.4f\n' % (fmt, pair, n, dm.max(), dm.mean(), (dm <= 24).mean(), (dm <= 40).mean(),
                                                          (dm <= 72).mean()))
    if ok:
        return True, '', stats
    bad = np.argwhere(mask & (d > lim))
    if len(bad) == 0:
        bad = np.argwhere(mask & (d == dm.max()))
    r, c = bad[0]
    e8 = compose.to_u8(exp)
    txt = '%d of %d judged pixels differ by more than %d levels (max %.1f, mean %.2f); first at (row %d, col %d): got RGBA %r, reference %r' % (
        int((dm > lim).sum()), n, lim, dm.max(), dm.mean(), r, c, tuple(int(v) for v in u8[r, c]), tuple(int(v) for v in e8[r, c]))
    return False, txt, stats


def call_names(calls):
    out = []
    for c in calls:
        if c.kind == 'getmap':
            out.append([n for n in c.params.get('layers', '').split(',') if n])
    return out


def evaluate(scp, sct, spec, req):
    """issue the pair and judge; returns a result dict, records nothing"""
    ref = reference(spec, req)
    tol = 2 + max(ref['steps'], len(req['layers']))
    mask = ~ref['dc']
    u1, p1, calls1 = fetch(scp, req, False)
    names1 = call_names(calls1)
    u2, p2, calls2 = fetch(sct, req, True)
    names2 = call_names(calls2)
    res = {'ref': ref, 'tol': tol, 'fail': [], 'txt': [], 'npix': int(mask.sum())}
    combined = any(len(n) > 1 for n in names1)
    flat1 = set(x for n in names1 for x in n)
    pruned = [n for n in ref['direct_names'] if n not in flat1] if u1 is not None else []
    # number of images that reached the merger in the plain run (upstream calls of direct sources + cached items)
    n_cache_items = sum(1 for it, via in draw_items(spec, req['layers'], ref['res']) if it.startswith('c') and not it.startswith('cs'))
    direct_calls = len([n for n in names1 if not any(x in cache_up_names(spec) for x in n)])
    reached = direct_calls + n_cache_items
    if combined:
        shortcut = 'combined+pruned' if pruned else 'combined'
    elif pruned:
        shortcut = 'pruned'
    elif reached <= 1:
        shortcut = 'single'
    else:
        shortcut = 'none'
    res['shortcut'] = shortcut
    res['single'] = reached <= 1
    res['combined'] = combined
    res['pruned'] = bool(pruned)
    res['twin_combined'] = any(len(n) > 1 for n in names2)
    res['names1'] = names1
    res['names2'] = names2
    ok1 = ok2 = okp = True
    if u1 is None:
        ok1 = False
        res['txt'].append('plain: ' + p1)
    else:
        ok1, t, st = compare(u1, ref['exp'], mask, req, tol)
        if not ok1:
            res['txt'].append('plain vs reference: ' + t)
    if u2 is None:
        ok2 = False
        res['txt'].append('defeated: ' + p2)
    else:
        ok2, t, st = compare(u2, ref['exp'], mask, req, tol)
        if not ok2:
            res['txt'].append('defeated vs reference: ' + t)
    if u1 is not None and u2 is not None:
        okp, t, st = compare(u1, compose.from_u8(u2), np.ones_like(mask), req, tol, pair=True)
        if not okp:
            res['txt'].append('plain vs defeated: ' + t)
    res['no_image'] = (u1 is None) or (u2 is None)
    res['ok1'], res['ok2'], res['okp'] = ok1, ok2, okp
    return res


def cache_up_names(spec):
    return set(cs['up'] for c in spec['caches'] for cs in c['sources'])


def failing(res):
    return not (res['ok1'] and res['ok2'])


SILENT_FEATS = ('transp', 'res_range', 'cov_disjoint', 'cov_touch')


def mech_of(res, req, ablated):
    ref = res['ref']
    if res['ok1'] and res['ok2']:
        fails = 'pair_only'
    elif not res['ok1'] and not res['ok2']:
        fails = 'both'
    else:
        fails = 'plain' if not res['ok1'] else 'defeated'
    feats = sorted(f for f in ref['feats'] if f not in SILENT_FEATS)
    return {'clause': 'no_image' if res['no_image'] else 'reference', 'fails': fails, 'shortcut': res['shortcut'],
            'features': '+'.join(feats) or 'none', 'n_drawn': ref['drawn'], 'transparent': bool(req['transparent']),
            'lossless': req['format'] in ('png', 'tiff'), 'ablated': bool(ablated)}


# ---- diagnosis: shrink the failing request and the configuration to the features that are needed for the failure ------

def _copy(o):
    import json
    return json.loads(json.dumps(o))


def involved(spec, layer_names):
    """(nodes, direct source ids, cache ids) in the subtrees of the requested layers"""
    byname = {node['name']: node for node, par in walk(spec['tree'])}
    nodes, sids, cids = [], [], []
    cache_ids = set(c['id'] for c in spec['caches'])

    def add(node):
        nodes.append(node['name'])
        for it in node.get('sources', []):
            (cids if it in cache_ids else sids).append(it)
        for ch in node.get('layers', []):
            add(ch)
    for nm in layer_names:
        add(byname[nm])
    return nodes, sorted(set(sids)), sorted(set(cids))


def ablation_candidates(spec, req):
    """list of (label, needs_rebuild, mutate(spec, req)) - each removes one optional feature"""
    out = []

    def R(label, fn):
        out.append((label, False, fn))

    def S(label, fn):
        out.append((label, True, fn))
    if req['format'] != 'png':
        R('format', lambda sp, rq: rq.__setitem__('format', 'png'))
    if req['bgcolor']:
        R('bgcolor', lambda sp, rq: rq.__setitem__('bgcolor', None))
    if spec['clr'] != 1:
        S('clr', lambda sp, rq: sp.__setitem__('clr', 1))
    nodes, sids, cids = involved(spec, req['layers'])

    def src(sp, sid):
        for x in sp['sources'] + [cs for c in sp['caches'] for cs in c['sources']]:
            if x['id'] == sid:
                return x

    def node(sp, name):
        for n, par in walk(sp['tree']):
            if n['name'] == name:
                return n
    all_sids = list(sids)
    for c in spec['caches']:
        if c['id'] in cids:
            all_sids += [cs['id'] for cs in c['sources']]
            if c.get('opacity') is not None:
                S('cache_opacity:' + c['id'], lambda sp, rq, cid=c['id']: [x for x in sp['caches'] if x['id'] == cid][0].__setitem__('opacity', None))
            if len(c['sources']) > 1:
                for j in range(len(c['sources'])):
                    S('cache_src:%s:%d' % (c['id'], j), lambda sp, rq, cid=c['id'], j=j: [x for x in sp['caches'] if x['id'] == cid][0]['sources'].pop(j))
    for sid in all_sids:
        x = src(spec, sid)
        if x.get('opacity') is not None:
            S('opacity:' + sid, lambda sp, rq, sid=sid: src(sp, sid).__setitem__('opacity', None))
        if x.get('key'):
            S('key:' + sid, lambda sp, rq, sid=sid: src(sp, sid).__setitem__('key', None))
        if x.get('cov'):
            S('cov:' + sid, lambda sp, rq, sid=sid: src(sp, sid).__setitem__('cov', None))
            if x['cov']['clip']:
                S('clip:' + sid, lambda sp, rq, sid=sid: src(sp, sid)['cov'].__setitem__('clip', False))
            if x['cov']['kind'] == 'poly':
                S('poly:' + sid, lambda sp, rq, sid=sid: src(sp, sid)['cov'].__setitem__('kind', 'bbox'))
        if x.get('min_res') or x.get('max_res'):
            S('res:' + sid, lambda sp, rq, sid=sid: (src(sp, sid).__setitem__('min_res', None), src(sp, sid).__setitem__('max_res', None)))
        if not x['transparent']:
            S('opaque:' + sid, lambda sp, rq, sid=sid: src(sp, sid).__setitem__('transparent', True))
        if x['kind'] == 'pal':
            S('pal:' + sid, lambda sp, rq, sid=sid: src(sp, sid).update(kind='rgba', up='rgba' + src(sp, sid)['up'][3:]))
    for nm in nodes:
        n = node(spec, nm)
        if n.get('min_res') or n.get('max_res'):
            S('layer_res:' + nm, lambda sp, rq, nm=nm: (node(sp, nm).pop('min_res', None), node(sp, nm).pop('max_res', None)))
        if len(n.get('sources', [])) > 1:
            for j in range(len(n['sources'])):
                S('layer_src:%s:%d' % (nm, j), lambda sp, rq, nm=nm, j=j: node(sp, nm)['sources'].pop(j))
        if n.get('sources') and n.get('layers'):
            S('group_kids:' + nm, lambda sp, rq, nm=nm: node(sp, nm).pop('layers'))
        if n.get('layers') and len(n['layers']) > 1 and not n.get('sources') and nm in req['layers']:
            for j in range(len(n['layers'])):
                S('group_child:%s:%d' % (nm, j), lambda sp, rq, nm=nm, j=j: node(sp, nm)['layers'].pop(j))
    return out


def diagnose(run, d, spec, scp, sct, req, res, deadline, config=True):
    """greedy: drop requested layers, then optional features of the request (config=False) and of the configuration
    (config=True), while the failure (same clause) stays.  returns (spec, req, res, complete, scp, sct)"""
    import time
    cur_spec, cur_req, cur_res = spec, dict(req), res
    cur_scp, cur_sct = scp, sct
    n_eval = [0]
    bulk_done = False
    trusted = set()

    def fclass(r):
        return (r['no_image'], r['ok1'], r['ok2'], r['combined'], r['pruned'])

    def keeps(r2):
        # the same kind of failure: image/no image, the same variants (plain / defeated) are wrong, and the same
        # optimisations (combined upstream request, pruned lower layer) were observed in the plain run
        return failing(r2) and fclass(r2) == fclass(res)

    def attempt(sp2, rq2, rebuild):
        n_eval[0] += 1
        dd = None
        if rebuild:
            dd = os.path.join(d, 'abl%d_%d' % (id(req) % 100000, n_eval[0]))
            try:
                p2 = build(sp2, os.path.join(dd, 'plain'), False)
                t2 = build(sp2, os.path.join(dd, 'twin'), True)
            except Exception:
                shutil.rmtree(dd, ignore_errors=True)
                return None, None, None, None
        else:
            p2, t2 = cur_scp, cur_sct
        return evaluate(p2, t2, sp2, rq2), p2, t2, dd
    complete = True
    try:
        changed = True
        while changed:
            changed = False
            if len(cur_req['layers']) > 1:
                for i in range(len(cur_req['layers'])):
                    t = dict(cur_req)
                    t['layers'] = cur_req['layers'][:i] + cur_req['layers'][i + 1:]
                    r2 = evaluate(cur_scp, cur_sct, cur_spec, t)
                    n_eval[0] += 1
                    if keeps(r2):
                        cur_req, cur_res = t, r2
                        changed = True
                        break
                if changed:
                    continue
            cands = ablation_candidates(cur_spec, cur_req)
            if config and not bulk_done:
                # bulk steps first: strip every optional attribute at once, then strip down to attribute sets that were
                # found sufficient in earlier complete diagnoses of this shard
                bulk_done = True
                present = set(lb.split(':')[0] for lb, rb, fn in cands if rb and lb.split(':')[0] in BULKABLE)
                for K in [frozenset()] + sorted((k for k in _LEARNED if k and k <= present and k != present), key=len):
                    todo = [(lb, fn) for lb, rb, fn in cands if rb and lb.split(':')[0] in BULKABLE and lb.split(':')[0] not in K]
                    if not todo or (deadline is not None and time.time() > deadline):
                        continue
                    sp2, rq2 = _copy(cur_spec), dict(cur_req)
                    for lb, fn in todo:
                        try:
                            fn(sp2, rq2)
                        except Exception:
                            pass
                    r2, p2, t2, dd = attempt(sp2, rq2, True)
                    if r2 is not None and keeps(r2):
                        cur_spec, cur_req, cur_res, cur_scp, cur_sct = sp2, rq2, r2, p2, t2
                        trusted = set(K)
                        changed = True
                        break
                    if dd:
                        shutil.rmtree(dd, ignore_errors=True)
                if changed:
                    continue
            for label, rebuild, fn in cands:
                if rebuild and not config:
                    continue
                if label.split(':')[0] in trusted:
                    continue
                if n_eval[0] > 200 or (deadline is not None and time.time() > deadline):
                    complete = False
                    break
                sp2, rq2 = (_copy(cur_spec), dict(cur_req)) if rebuild else (cur_spec, dict(cur_req))
                fn(sp2, rq2)
                r2, p2, t2, dd = attempt(sp2, rq2, rebuild)
                if r2 is not None and keeps(r2):
                    cur_spec, cur_req, cur_res, cur_scp, cur_sct = sp2, rq2, r2, p2, t2
                    changed = True
                    break
                if dd:
                    shutil.rmtree(dd, ignore_errors=True)
            if not complete:
                break
        if complete and config:
            left = frozenset(lb.split(':')[0] for lb, rb, fn in ablation_candidates(cur_spec, cur_req)
                             if rb and lb.split(':')[0] in BULKABLE)
            _LEARNED.add(left)
    finally:
        pass
    return cur_spec, cur_req, cur_res, complete, cur_scp, cur_sct


def describe(spec, req, res):
    items = draw_items(spec, req['layers'], res['ref']['res'])
    nodes, sids, cids = involved(spec, req['layers'])
    srcs = {}
    for x in spec['sources']:
        if x['id'] in sids:
            srcs[x['id']] = {k: v for k, v in x.items() if v is not None and k not in ('id', 'kind')}
    for c in spec['caches']:
        if c['id'] in cids:
            srcs[c['id']] = {'cache_of': [{k: v for k, v in cs.items() if v is not None and k not in ('kind',)} for cs in c['sources']],
                             'opacity': c.get('opacity')}
    byname = {node['name']: node for node, par in walk(spec['tree'])}
    return ('GetMap %s | layer definitions: %r | drawn items per the configuration (bottom first): %r | upstream LAYERS seen, plain: %r '
            'defeated: %r | tolerance %d levels | %s | sources: %r' % (
                getmap_path(req), [byname[n] for n in req['layers']], [list(x) for x in items], res['names1'], res['names2'],
                res['tol'], ' ;; '.join(res['txt']), srcs))


_MEMO = {}
_ABL = {'spent': 0.0}
_LEARNED = set()
BULKABLE = ('opacity', 'key', 'cov', 'clip', 'poly', 'res', 'opaque', 'pal', 'layer_res', 'group_kids', 'cache_opacity', 'clr')


def run_case(run, case):
    rng = run.rng('case', case['i'])
    spec = case.get('spec') or gen_spec(rng)
    reqs = case.get('requests') or gen_requests(rng, spec, rng.randint(8, 12))
    d = run.subdir('c14')
    try:
        try:
            scp = build(spec, os.path.join(d, 'plain'), False)
            sct = build(spec, os.path.join(d, 'twin'), True)
        except Exception as ex:
            # every generated configuration is valid by the documentation: a rejection is a harness problem
            raise RuntimeError('generated configuration rejected by the loader: %s: %s' % (type(ex).__name__, ex))
        run.hit('configs')
        done = []
        for req in reqs:
            if run.out_of_time() and not run.replaying:
                break
            one_request(run, case, spec, scp, sct, req, d)
            done.append(req)
        if done and (case['i'] % 2 == 0 or run.replaying) and not case.get('auth_plan'):
            concurrent_phase(run, case, spec, scp, done)
        if done:
            auth_phase(run, case, spec, scp, done, plan=case.get('auth_plan'),
                       only_polyclip=(case['i'] % 2 == 0 and not case.get('auth_plan')))
    finally:
        shutil.rmtree(d, ignore_errors=True)


def implicit_layers(spec, req, res):
    """names of the layers that are drawn for this request without being named in it (children of requested groups)"""
    owners = []
    draw_items(spec, req['layers'], res, owners=owners)
    seen = []
    for o in owners:
        if o not in req['layers'] and o not in seen:
            seen.append(o)
    return seen


def auth_phase(run, case, spec, scp, reqs, plan=None, only_polyclip=False):
    """authorization removes or clips layers AFTER the service decided what to draw: the picture must be the composition
    of what the client is allowed to see - a layer that was skipped because it lies under an opaque one has to come back
    when the opaque one is denied or clipped. Only layers that are requested implicitly (through a group) are denied:
    an explicitly requested denied layer is a 403 by design."""
    rng = run.rng('auth', case['i'])
    srcs_ = {s_['id']: s_ for s_ in spec['sources']}
    polyclip = set(node['name'] for node, par in walk(spec['tree'])
                   if any(it in srcs_ and srcs_[it].get('cov') and srcs_[it]['cov']['kind'] == 'poly' and srcs_[it]['cov']['clip']
                          for it in node.get('sources', [])))
    for ri, req in enumerate(reqs):
        res = (req['bbox'][2] - req['bbox'][0]) / float(req['size'][0])
        cand = implicit_layers(spec, req, res)
        if not cand:
            continue
        if plan is not None:
            if ri >= len(plan) or plan[ri] is None:
                continue
            denied, limits = list(plan[ri]['denied']), dict(plan[ri]['limits'])
        else:
            denied, limits = [], {}
            for nm in cand:
                r = rng.random()
                b = req['bbox']
                wx, wy = b[2] - b[0], b[3] - b[1]
                if nm in polyclip:
                    # a layer with a clipping polygon of its own: limit it to (nearly) the whole request
                    if r < 0.75:
                        limits[nm] = [b[0] - wx * rng.uniform(0.0, 0.2), b[1] - wy * rng.uniform(0.0, 0.2),
                                      b[2] + wx * rng.uniform(-0.3, 0.2), b[3] + wy * rng.uniform(-0.3, 0.2)]
                elif r < 0.35:
                    denied.append(nm)
                elif r < 0.6:
                    x0 = b[0] + wx * rng.uniform(-0.1, 0.6)
                    y0 = b[1] + wy * rng.uniform(-0.1, 0.6)
                    limits[nm] = [x0, y0, x0 + wx * rng.uniform(0.2, 0.7), y0 + wy * rng.uniform(0.2, 0.7)]
            if not denied and not limits:
                continue
            if only_polyclip and not any(nm in polyclip for nm in limits):
                continue

        def authorize(service, layers=[], environ=None, **kw):
            out = {}
            for nm in layers:
                if nm in denied:
                    out[nm] = {'map': False}
                elif nm in limits:
                    out[nm] = {'map': True, 'limited_to': {'geometry': list(limits[nm]), 'srs': SRS}}
                else:
                    out[nm] = {'map': True}
            return {'authorized': 'partial', 'layers': out}

        def app(environ, start_response):
            environ['mapproxy.authorize'] = authorize
            return scp.app(environ, start_response)
        ref = reference(spec, req, denied=denied, limits=limits)
        up = upstream.UP
        up.reset_log()
        try:
            r = scenario.wsgi_get(app, getmap_path(req, False))[0]
        except Exception as ex:
            run.violation({'clause': 'authorized_composition', 'problem': 'exception', 'exc': type(ex).__name__},
                          {'i': case['i'], 'spec': spec, 'requests': reqs, 'auth_plan': None},
                          'request with authorization raised %r' % (ex,))
            return
        names = call_names(list(up.log))
        up.reset_log()
        run.hit('auth_requests')
        if denied:
            run.hit('auth_requests_with_denied_layer')
        if limits:
            run.hit('auth_requests_with_limited_layer')
        if 'auth_limited' in ref['feats'] and 'clip_poly' in ref['feats']:
            run.hit('auth_requests_limiting_a_polygon_clipped_layer')
        if r.code != 200 or not r.content_type.startswith('image/'):
            problem, txt = 'no_image', 'HTTP %s %s %s' % (r.code, r.content_type, r.body[:200].decode('utf-8', 'replace'))
            ok = False
        else:
            u8 = compose.to_u8(compose.from_pil(r.image()))
            tol = 2 + max(ref['steps'], len(req['layers']))
            ok, txt, st = compare(u8, ref['exp'], ~ref['dc'], req, tol)
            problem = 'picture'
        run.judge(('auth', len(denied), len(limits), req['format'], bool(req['transparent'])), nontrivial=ref['drawn'] > 0)
        run.hit('pixels_judged', int((~ref['dc']).sum()))
        if ok:
            continue
        # same vocabulary as the plain phase, computed for the permitted composition
        flat = set(x for n in names for x in n)
        combined = any(len(n) > 1 for n in names)
        pruned = [n for n in ref['direct_names'] if n not in flat] if problem == 'picture' else []
        n_cache_items = sum(1 for it, via in draw_items(spec, req['layers'], res, denied=denied)
                            if it.startswith('c') and not it.startswith('cs'))
        direct_calls = len([n for n in names if not any(x in cache_up_names(spec) for x in n)])
        if combined:
            shortcut = 'combined+pruned' if pruned else 'combined'
        elif pruned:
            shortcut = 'pruned'
        elif direct_calls + n_cache_items <= 1:
            shortcut = 'single'
        else:
            shortcut = 'none'
        feats = sorted(f for f in ref['feats'] if f not in SILENT_FEATS)
        plan_out = [None] * len(reqs)
        plan_out[ri] = {'denied': denied, 'limits': limits}
        run.violation({'clause': 'authorized_composition', 'problem': problem, 'denied': bool(denied), 'limited': bool(limits),
                       'shortcut': shortcut, 'features': '+'.join(feats) or 'none', 'n_drawn': ref['drawn'],
                       'transparent': bool(req['transparent']), 'lossless': req['format'] in ('png', 'tiff')},
                      {'i': case['i'], 'spec': spec, 'requests': reqs, 'auth_plan': plan_out},
                      'LAYERS=%s with authorization (denied %r, limited %r): answer is not the composition of the permitted '
                      'layers: %s; upstream layers asked: %r, permitted direct layers not asked: %r; drawn without '
                      'authorization: %r' % (
                          ','.join(req['layers']), denied, limits, txt, sorted(flat), pruned,
                          [list(x) for x in draw_items(spec, req['layers'], res)]))
        return


def concurrent_phase(run, case, spec, scp, reqs):
    """the picture a client gets must not depend on what other clients ask at the same moment: every request of the case is
    answered once more alone (reference bytes; caches are warm by now) and then from four real threads at once
    (interpreter switch interval 1 microsecond); every concurrent answer must be byte-identical to the reference"""
    import threading
    paths = [getmap_path(r, False) for r in reqs]

    def get(pth):
        r = scp.get(pth)
        return r.code, r.content_type, r.body
    try:
        ref = [get(p_) for p_ in paths]
        again = [get(p_) for p_ in paths]
    except Exception as ex:
        run.dc('concurrent_phase_reference_failed:' + type(ex).__name__)
        return
    stable = [i for i in range(len(paths)) if ref[i] == again[i] and ref[i][0] == 200]
    if len(stable) < len(paths):
        run.count('responses_not_repeatable_when_alone', len(paths) - len(stable))
    if not stable:
        return
    diffs = []
    lock = threading.Lock()
    nthreads = 4
    start = threading.Barrier(nthreads)

    def client(k):
        order = (stable[k:] + stable[:k]) * 2
        try:
            start.wait(20)
            for i in order:
                got = get(paths[i])
                if got != ref[i]:
                    with lock:
                        diffs.append((i, got))
        except Exception as ex:
            with lock:
                diffs.append((-1, (0, '', repr(ex).encode())))
    old_switch = sys.getswitchinterval()
    sys.setswitchinterval(1e-6)
    try:
        ths = [threading.Thread(target=client, args=(k,)) for k in range(nthreads)]
        for t in ths:
            t.start()
        for t in ths:
            t.join(180)
    finally:
        sys.setswitchinterval(old_switch)
        upstream.UP.reset_log()
    run.hit('concurrent_rounds')
    run.hit('concurrent_responses_compared', len(stable) * 2 * nthreads)
    if diffs:
        i, got = diffs[0]
        detail = 'exception %r' % (got[2][:300],) if i < 0 else (
            '%s: alone %s %s %d bytes, concurrently %s %s %d bytes%s' % (
                paths[i], ref[i][0], ref[i][1], len(ref[i][2]), got[0], got[1], len(got[2]),
                (' body ' + got[2][:200].decode('utf-8', 'replace')) if got[0] != 200 else ''))
        run.violation({'clause': 'answer_differs_under_concurrency', 'status_changed': bool(i >= 0 and got[0] != ref[i][0]),
                       'n_layers': len(reqs[i]['layers']) if i >= 0 else 0},
                      {'i': case['i'], 'spec': spec, 'requests': reqs},
                      '%d of %d concurrently issued requests were answered differently from the same request issued alone; first: %s' % (
                          len(diffs), len(stable) * 2 * nthreads, detail))


def one_request(run, case, spec, scp, sct, req, d):
    import json
    import time
    res = evaluate(scp, sct, spec, req)
    ref = res['ref']
    feats = ref['feats']
    run.hit('pairs')
    run.hit('pixels_judged', res['npix'] * 2)
    nd = int(ref['dc'].sum())
    if nd:
        run.dc('coverage_edge_or_unclipped_polygon_pixels', nd)
    if res['single']:
        run.hit('single_layer_requests')
    if res['combined']:
        run.hit('combined_requests_observed')
    if res['pruned']:
        run.hit('pruned_requests_observed')
    if res['twin_combined']:
        run.count('twin_combined_anyway')
    if 'opacity' in feats or 'opacity0' in feats or 'cache_opacity' in feats:
        run.hit('opacity_layers')
    if 'colorkey' in feats:
        run.hit('colorkey_layers')
    if 'clip_bbox' in feats or 'clip_poly' in feats:
        run.hit('clip_layers')
    if 'cov_bbox' in feats or 'cov_poly' in feats:
        run.hit('coverage_noclip_layers')
    if 'group_own' in feats or 'group_kids' in feats:
        run.hit('group_requests')
    if 'cache' in feats:
        run.hit('cache_layers')
    if 'res_hidden' in feats or 'layer_res_hidden' in feats or 'group_layer_res_hidden' in feats:
        run.hit('res_hidden_layers')
    if req['transparent']:
        run.hit('alpha_judged')
    if 'service_extent_cut' in feats:
        run.hit('service_extent_cut_requests')
    run.hit('fmt_' + req['format'])
    cls = (len(req['layers']), tuple(sorted(feats)), bool(req['transparent']), req['format'], res['shortcut'])
    run.judge(cls, nontrivial=ref['drawn'] > 0, n=3)
    if len(run.samples) < 4 and ref['drawn'] > 1:
        run.sample({'request': req, 'drawn_items': [list(x) for x in draw_items(spec, req['layers'], ref['res'])],
                    'features': sorted(feats), 'shortcut': res['shortcut'], 'upstream_layers_plain': res['names1'],
                    'upstream_layers_defeated': res['names2'], 'tolerance': res['tol']})
    if res['ok1'] and res['ok2'] and res['okp']:
        return
    if res['ok1'] and res['ok2'] and not res['okp']:
        # both answers satisfy the reference within the tolerance; their mutual distance is below twice the tolerance
        run.dc('pair_differs_but_both_within_tolerance_of_reference')
        return
    # stage A (cheap, same configuration): fewest layers, png, no bgcolor
    _, rqa, ra, _, _, _ = diagnose(run, d, spec, scp, sct, req, res, None, config=False)
    pre = mech_of(ra, rqa, False)
    key = json.dumps(pre, sort_keys=True)
    if key in _MEMO and not run.replaying:
        mech = dict(_MEMO[key])
        detail = '[configuration not shrunk: same signature as an earlier, fully diagnosed failure] ' + describe(spec, rqa, ra)
        run.violation(mech, {'i': case['i'], 'spec': spec, 'requests': [rqa]}, detail)
        return
    # stage B: remove optional features from the configuration (rebuilds both scenarios per candidate)
    # (bounded by 200 evaluations, ~0.15 s each; it is allowed to overrun the shard budget so that every reported
    # mechanism is a fully shrunk one - time spent here means fewer cases per run, reported as skipped_for_budget)
    t0 = time.time()
    sp2, rq2, r2, complete, _, _ = diagnose(run, d, spec, scp, sct, rqa, ra, None)
    _ABL['spent'] += time.time() - t0
    run.count('diagnosis_seconds', round(time.time() - t0, 2))
    mech = mech_of(r2, rq2, complete)
    if complete:
        _MEMO[key] = mech
    else:
        run.count('diagnosis_cut_short')
    run.violation(mech, {'i': case['i'], 'spec': sp2, 'requests': [rq2]}, describe(sp2, rq2, r2))


def evidence_extra(total):
    """the whole histogram of violation mechanisms (core prints only the 40 most frequent ones)"""
    import json
    mechs = []
    for k, n in total.viol_mechs.most_common(300):
        m = json.loads(k)
        m['count'] = n
        mechs.append(m)
    return {'violation_mechanisms': mechs} if mechs else {}


def gen_cases(run):
    # directed: one shrunk configuration + request per open known finding, so that each of them is reproduced in every run
    # whatever the load of the machine (collected with VERIF_DUMP_KNOWN_CASES from a random run)
    import json as _json
    with open(os.path.join(os.path.dirname(os.path.abspath(__file__)), 'c14_directed.json')) as f:
        for c in _json.load(f):
            yield c
    n = run.pick(700, 12000)
    for i in range(n):
        yield {'i': i}


if __name__ == '__main__':
    core.main(sys.modules[__name__])
