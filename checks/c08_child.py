"""child for the multi-process stress of C08 in spawn mode: python -m checks.c08_child '<json args>'
A freshly started interpreter (own hash salt, nothing inherited from the parent) builds the application on the shared
directory and issues its requests; prints the list of problems as JSON on the last line."""
import json
import sys

from vlib import core

if __name__ == '__main__':
    core.use_repo()
    from checks import c08
    a = json.loads(sys.argv[1])
    try:
        bad = c08.stress_child(a['spec'], a['d'], [tuple(c) for c in a['reqs']], a['seed'], a['logpath'], start_at=a.get('start_at'))
    except BaseException as ex:   # noqa
        import traceback
        bad = ['child exception %r %s' % (ex, traceback.format_exc()[-800:])]
    print('C08CHILD ' + json.dumps(bad))
