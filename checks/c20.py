"""C20 - conditional requests are honoured soundly.

Histories at the WSGI boundary of the real application (real loader, real services, real cache backends) over a
synthetic upstream: request a tile, repeat, send If-None-Match / If-Modified-Since in matching, stale, equivalent,
garbage and malformed forms, REWRITE the tile (remove through the cache API / behind its back / as a side effect of
re-creating a meta-tile neighbour, new upstream epoch, re-create by a plain or a conditional request, then put the
tile's timestamp explicitly into the same instant / same second / a later / an earlier second), and map upstream
HTTP 500 to uncached fill images (`on_error ... cache: false`).

The oracle never computes an ETag.  A recording proxy around the cache backend of the TileManager tells it when the
tile was stored / removed (generations); "the tile as currently stored" is what an unconditional request of the same
generation returns (and all those must agree); the harness remembers for every validator it hands back which bytes
the client received with it."""
import calendar
import datetime
import hashlib
import os
import re
import shutil
import sqlite3
import sys
import time
import xml.etree.ElementTree as ET
from email.utils import parsedate_to_datetime

import numpy as np

from vlib import core, upstream, scenario

PID = 'C20'
LEVEL = 'exploration'
BUDGET_S = {'quick': 40, 'thorough': 560}
FLOORS = {'quick': {'histories': 520, 'repeat_pairs_compared': 3900, 'etag_304_checked': 570, 'unjustified_304_checks': 2600,
                    'rewrites': 900, 'rewrites_neighbour': 260, 'timestamps_forced': 760, 'uncacheable_tiles_checked': 1900,
                    'histories_tms': 85, 'histories_tiles': 90, 'histories_wmts_kvp': 80, 'histories_wmts_rest': 80,
                    'histories_kml': 90, 'histories_wmsc': 80,
                    'uncacheable_tms_single': 360, 'uncacheable_tms_meta': 360, 'uncacheable_wmts_single': 230,
                    'uncacheable_wmts_meta': 350, 'uncacheable_kml_single': 110, 'uncacheable_kml_meta': 200,
                    'uncacheable_wmsc_single': 135, 'uncacheable_wmsc_meta': 165},
          'thorough': {'histories': 8000, 'repeat_pairs_compared': 61000, 'etag_304_checked': 6500, 'unjustified_304_checks': 40000,
                       'rewrites': 14000, 'rewrites_neighbour': 4200, 'timestamps_forced': 11900, 'uncacheable_tiles_checked': 30000,
                       'histories_tms': 1300, 'histories_tiles': 1300, 'histories_wmts_kvp': 1300, 'histories_wmts_rest': 1300,
                       'histories_kml': 1300, 'histories_wmsc': 1300,
                       'uncacheable_tms_single': 4900, 'uncacheable_tms_meta': 5500, 'uncacheable_wmts_single': 3800,
                       'uncacheable_wmts_meta': 5700, 'uncacheable_kml_single': 1900, 'uncacheable_kml_meta': 2800,
                       'uncacheable_wmsc_single': 2300, 'uncacheable_wmsc_meta': 2800}}
RULE = ("case = one generated configuration (grid srs/origin/tile size, backend file(layout)|sqlite, path single|meta "
        "2x2|bulk 2x2, source wms|tile with on_error 500 -> '#ff0000' cache:false, content noise|flat(same-size tiles), optionally "
        "link_single_color_images) "
        "and one history of 25-70 requests for one tile through one of tms|tiles|wmts_kvp|wmts_rest|kml|wmsc (URL forms "
        "read from the services' own capabilities): plain repeats, If-None-Match (current, quoted, weak, list, *, "
        "stale from an earlier generation, from the creating response, from an error response, garbage), "
        "If-Modified-Since (equal, older, newer, far future, rfc850/asctime forms, stale, unparseable, invalid calendar "
        "date, year < 1970, non-GMT zone), both together; 2-4 rewrite or fault blocks per history. evaluations = "
        "repeat comparisons + conditional-response judgements + uncacheable-response judgements; distinct = (service, "
        "backend, path, header kind | repeat | uncacheable, last rewrite kind); non-trivial = judged after at least one "
        "rewrite/fault block or a conditional request")
ASSUMPTIONS = [
    "'the tile as currently stored' = what an unconditional request through the same service returns while the "
    "recording proxy around tile_manager.cache has seen no store/remove of the tile and the harness has not touched its "
    "timestamp; responses during which the tile was stored (creating responses) are not compared with later ones",
    "a 304 is justified if the If-None-Match value equals the current ETag as served, or matches it under RFC 7232 weak "
    "comparison (list members, W/ prefix, quotes, *), or If-Modified-Since - parsed by the harness's own strict "
    "IMF-fixdate/rfc850/asctime parser, else leniently by email.utils.parsedate_to_datetime honouring the zone - is >= "
    "the current Last-Modified; precedence of If-None-Match over If-Modified-Since (RFC) is a don't-care",
    "soundness of a 304 is judged against bytes: if the validator the client presents was handed out with other bytes "
    "than the ones now stored and the server still answers 304 because the ETag string is equal, that is reported under "
    "its own clause '304_content_changed' (decision: the statement's 'matches the tile as currently stored' is read as "
    "'was issued for the bytes currently stored'); the same situation reached through If-Modified-Since is a don't-care "
    "(one-second resolution of HTTP dates)",
    "uncacheable = upstream answered HTTP 500, the source maps it to a fill colour with cache:false, the proxy saw no "
    "store of the tile and the response image is the fill colour; required: a Cache-Control no-store directive. "
    "no-store accompanied by public/max-age in a second header is counted as don't-care (no-store prevails)",
    "timestamps are forced with os.utime(ns) / SQL UPDATE by the harness; no sleeping, no wall-clock verdicts",
    "single-threaded histories; expiry appears only as a way to rewrite a tile in place (refresh_before: mtime of a marker file that the harness moves to 2100 for one request); which tiles a rule selects is C13's subject",
]

FILL = (255, 0, 0)
SERVICES = ['tms', 'tiles', 'wmts_kvp', 'wmts_rest', 'kml', 'wmsc']
FAMILY = {'tms': 'tms', 'tiles': 'tms', 'wmts_kvp': 'wmts', 'wmts_rest': 'wmts', 'kml': 'kml', 'wmsc': 'wmsc'}

# ---- HTTP dates, independent of mapproxy.util.times ----------------------------------------------------------------------

MON = ['Jan', 'Feb', 'Mar', 'Apr', 'May', 'Jun', 'Jul', 'Aug', 'Sep', 'Oct', 'Nov', 'Dec']
WD = ['Mon', 'Tue', 'Wed', 'Thu', 'Fri', 'Sat', 'Sun']
WDL = ['Monday', 'Tuesday', 'Wednesday', 'Thursday', 'Friday', 'Saturday', 'Sunday']
EPOCH = datetime.datetime(1970, 1, 1)
_IMF = re.compile(r'^(?:Mon|Tue|Wed|Thu|Fri|Sat|Sun), (\d{2}) (\w{3}) (\d{4}) (\d{2}):(\d{2}):(\d{2}) GMT$')
_R850 = re.compile(r'^(?:Monday|Tuesday|Wednesday|Thursday|Friday|Saturday|Sunday), (\d{2})-(\w{3})-(\d{2}) (\d{2}):(\d{2}):(\d{2}) GMT$')
_ASC = re.compile(r'^(?:Mon|Tue|Wed|Thu|Fri|Sat|Sun) (\w{3}) ([ \d]\d) (\d{2}):(\d{2}):(\d{2}) (\d{4})$')


def _dt(t):
    return EPOCH + datetime.timedelta(seconds=int(t))


def fmt_imf(t):
    d = _dt(t)
    return '%s, %02d %s %04d %02d:%02d:%02d GMT' % (WD[d.weekday()], d.day, MON[d.month - 1], d.year, d.hour, d.minute, d.second)


def fmt_850(t):
    d = _dt(t)
    return '%s, %02d-%s-%02d %02d:%02d:%02d GMT' % (WDL[d.weekday()], d.day, MON[d.month - 1], d.year % 100, d.hour, d.minute, d.second)


def fmt_asc(t):
    d = _dt(t)
    return '%s %s %2d %02d:%02d:%02d %04d' % (WD[d.weekday()], MON[d.month - 1], d.day, d.hour, d.minute, d.second, d.year)


def strict_httpdate(s):
    """seconds since the epoch for a valid HTTP-date (RFC 7231 7.1.1.1), else None"""
    if s is None:
        return None
    m = _IMF.match(s)
    try:
        if m:
            d, mon, y, H, M, S = m.groups()
            return calendar.timegm(datetime.datetime(int(y), MON.index(mon) + 1, int(d), int(H), int(M), int(S)).timetuple())
        m = _R850.match(s)
        if m:
            d, mon, y, H, M, S = m.groups()
            year = 2000 + int(y)
            if year > time.gmtime().tm_year + 50:
                year -= 100
            return calendar.timegm(datetime.datetime(year, MON.index(mon) + 1, int(d), int(H), int(M), int(S)).timetuple())
        m = _ASC.match(s)
        if m:
            mon, d, H, M, S, y = m.groups()
            return calendar.timegm(datetime.datetime(int(y), MON.index(mon) + 1, int(d), int(H), int(M), int(S)).timetuple())
    except ValueError:
        return None
    return None


def lenient_date(s):
    try:
        d = parsedate_to_datetime(s)
        if d.tzinfo is None:
            d = d.replace(tzinfo=datetime.timezone.utc)
        return (d - datetime.datetime(1970, 1, 1, tzinfo=datetime.timezone.utc)).total_seconds()
    except Exception:
        return None


def ims_match(ims, lm):
    """(how, matches): does the If-Modified-Since value denote a time >= the Last-Modified value"""
    if ims is None or lm is None:
        return 'absent', False
    lm_t = strict_httpdate(lm)
    if lm_t is None:
        return 'server_date_unparsed', False
    t = strict_httpdate(ims)
    if t is not None:
        return 'strict', t >= lm_t
    t = lenient_date(ims)
    if t is not None:
        return 'lenient', t >= lm_t
    return 'invalid', False


# ---- entity tags (RFC 7232 2.3 / 3.2), independent of mapproxy.response --------------------------------------------------

def _opaque(p):
    p = p.strip()
    if p.startswith('W/'):
        p = p[2:]
    if len(p) >= 2 and p[0] == '"' and p[-1] == '"':
        p = p[1:-1]
    return p


def etag_members(v):
    out, cur, inq = [], '', False
    for ch in v:
        if ch == '"':
            inq = not inq
        if ch == ',' and not inq:
            out.append(cur)
            cur = ''
        else:
            cur += ch
    out.append(cur)
    return [('*' if p.strip() == '*' else _opaque(p)) for p in out if p.strip()]


def rfc_match(inm, etag):
    if inm is None or etag is None:
        return False
    mem = etag_members(inm)
    return '*' in mem or _opaque(etag) in mem


# ---- upstream content ---------------------------------------------------------------------------------------------------

class Pattern(object):
    """noise: every pixel unique (vlib NOISE). flat: one colour per (level, tile, epoch) -> encoded tiles of equal size"""

    def __init__(self, lat, grid_sizes, state, flat):
        self.lat = lat
        self.state = state
        self.flat = flat
        self.nt = upstream.NoiseTiles(lat, grid_sizes, state)

    def render(self, bbox, size, level=None):
        res = (bbox[2] - bbox[0]) / size[0]
        lv = level if level is not None else self.lat.level_for(res)[0]
        gx, gy = self.lat.cells(lv, bbox, size)
        if self.flat:
            gx = gx // self.lat.tile_size[0]
            gy = gy // self.lat.tile_size[1]
        return upstream.noise_rgb(lv, gx, gy, self.state['epoch'])

    def wms(self, call):
        if call.kind != 'getmap':
            return upstream.Resp(b'<ServiceExceptionReport/>', 'application/vnd.ogc.se_xml', 200)
        q = upstream.parse_getmap(call)
        return upstream.Resp(upstream.encode(self.render(q['bbox'], q['size'])), 'image/png')

    def tiles(self, call):
        z, x, y = parse_tile_path(call.path)
        return upstream.Resp(upstream.encode(self.render(self.nt.tile_bbox(x, y, z), self.lat.tile_size, level=z)), 'image/png')


def parse_tile_path(path):
    parts = path.strip('/').split('/')
    return int(parts[-3]), int(parts[-2]), int(parts[-1].rsplit('.', 1)[0])


# ---- configurations -----------------------------------------------------------------------------------------------------

def gen_spec(rng):
    srs = rng.choice(['EPSG:3857', 'EPSG:3857', 'EPSG:4326', 'EPSG:25832'])
    if srs == 'EPSG:3857':
        x0, y0, w = rng.choice([(0.0, 0.0, 1000000.0), (-500000.0, 4000000.0, 654321.0), (1113194.9, 6446275.8, 80000.0)])
    elif srs == 'EPSG:4326':
        x0, y0, w = rng.choice([(0.0, 0.0, 10.0), (5.5, 47.25, 9.75), (-120.0, -40.0, 33.3)])
    else:
        x0, y0, w = rng.choice([(300000.0, 5300000.0, 512000.0), (400000.5, 5600000.25, 100000.0)])
    tile_size = rng.choice([[64, 64], [64, 64], [32, 32], [48, 48]])
    path = rng.choice(['single', 'single', 'meta', 'meta', 'bulk'])
    src = 'tile' if path == 'bulk' else ('wms' if path == 'meta' else rng.choice(['wms', 'tile']))
    backend = rng.choice(['file', 'sqlite'])
    spec = {'srs': srs, 'bbox': [x0, y0, x0 + w, y0 + w], 'tile_size': tile_size, 'levels': rng.randint(3, 5),
            'origin': rng.choice(['ll', 'll', 'ul']), 'path': path, 'src': src, 'backend': backend,
            'layout': rng.choice(['tc', 'tms', 'mp', 'quadkey', 'arcgis']) if backend == 'file' else None,
            'content': rng.choice(['noise', 'flat', 'flat']), 'service': rng.choice(SERVICES),
            'grid_names': rng.random() < 0.4, 'meta_buffer': rng.choice([0, 0, 8]) if path == 'meta' else 0,
            'max_tile_age': rng.choice([None, None, 1, 0])}
    # single-colour tiles stored as symlinks: the backend takes timestamp and size from the link itself (lstat)
    spec['link_single'] = backend == 'file' and spec['content'] == 'flat' and rng.random() < 0.3
    z = rng.randint(1, spec['levels'] - 1)
    n = 2 ** z
    spec['tile'] = [rng.randrange(n), rng.randrange(n), z]
    # a refresh rule (mtime of a marker file, ancient unless the harness moves it): tiles can also be rewritten by expiry
    spec['expiry'] = rng.random() < 0.5
    # time zone of the server process: HTTP dates are GMT whatever the local time is
    spec['tz'] = rng.choice(['UTC', 'UTC', 'America/New_York', 'Europe/Berlin', 'Asia/Kolkata', 'Pacific/Auckland',
                             'America/St_Johns', 'Pacific/Honolulu'])
    return spec


class Rec(object):
    """recording proxy around the cache backend: generations of the target tile"""

    def __init__(self, cache, target):
        self._c = cache
        self.T = tuple(target)
        self.gen = 0
        self.stored = False
        self.loads = []
        self.events = []

    def note(self, what, coords):
        if self.T in coords:
            self.gen += 1
            self.stored = what != 'remove'
            self.events.append(what)

    def store_tile(self, tile, dimensions=None):
        r = self._c.store_tile(tile, dimensions=dimensions)
        self.note('store', [tile.coord])
        return r

    def store_tiles(self, tiles, dimensions=None):
        coords = [t.coord for t in tiles]
        r = self._c.store_tiles(tiles, dimensions=dimensions)
        self.note('store', coords)
        return r

    def remove_tile(self, tile, dimensions=None):
        r = self._c.remove_tile(tile, dimensions=dimensions)
        self.note('remove', [tile.coord])
        return r

    def remove_tiles(self, tiles, dimensions=None):
        coords = [t.coord for t in tiles]
        r = self._c.remove_tiles(tiles, dimensions=dimensions)
        self.note('remove', coords)
        return r

    def load_tile(self, tile, with_metadata=False, dimensions=None):
        self.loads.append([tile.coord])
        return self._c.load_tile(tile, with_metadata=with_metadata, dimensions=dimensions)

    def load_tiles(self, tiles, with_metadata=False, dimensions=None):
        self.loads.append([t.coord for t in tiles])
        return self._c.load_tiles(tiles, with_metadata, dimensions=dimensions)

    def __getattr__(self, k):
        return getattr(self._c, k)


def tile_rect(lat, x, y, z):
    r = lat.res[z]
    tw, th = lat.tile_size
    x0 = lat.bbox[0] + x * r * tw
    if lat.ul:
        y1 = lat.bbox[3] - y * r * th
        y0 = y1 - r * th
    else:
        y0 = lat.bbox[1] + y * r * th
        y1 = y0 + r * th
    return (x0, y0, x0 + r * tw, y1)


MARKER_ANCIENT = 946684800          # 2000-01-01: nothing is stale
MARKER_FUTURE = 4102444800           # 2100-01-01: everything is stale


def build(spec, d):
    conf = scenario.base_conf()
    conf['grids']['g'] = {'srs': spec['srs'], 'bbox': list(spec['bbox']), 'tile_size': list(spec['tile_size']),
                          'num_levels': spec['levels'], 'origin': spec['origin']}
    on_error = {500: {'response': '#ff0000', 'cache': False}}
    if spec['src'] == 'wms':
        conf['sources']['src'] = {'type': 'wms', 'req': {'url': 'http://c20wms/service?', 'layers': 'a'},
                                  'supported_srs': [spec['srs']], 'on_error': on_error}
    else:
        conf['sources']['src'] = {'type': 'tile', 'url': 'http://c20tiles/t/%(z)s/%(x)s/%(y)s.png', 'grid': 'g',
                                  'on_error': on_error}
    cache = {'grids': ['g'], 'sources': ['src'], 'format': 'image/png', 'request_format': 'image/png',
             'meta_size': [1, 1] if spec['path'] == 'single' else [2, 2], 'meta_buffer': spec['meta_buffer']}
    if spec['path'] == 'bulk':
        cache['bulk_meta_tiles'] = True
    if spec['backend'] == 'sqlite':
        cache['cache'] = {'type': 'sqlite'}
    else:
        cache['cache'] = {'type': 'file', 'directory_layout': spec['layout']}
        if spec.get('link_single'):
            cache['link_single_color_images'] = True
    if spec.get('expiry'):
        marker = os.path.join(d, 'expiry-marker')
        with open(marker, 'w') as f:
            f.write('x')
        os.utime(marker, (MARKER_ANCIENT, MARKER_ANCIENT))
        cache['refresh_before'] = {'mtime': marker}
    conf['caches']['c'] = cache
    conf['layers'] = [{'name': 'lyr', 'title': 'lyr', 'sources': ['c']}]
    gn = bool(spec['grid_names'])
    conf['services'] = {'tms': {'use_grid_names': gn}, 'kml': {'use_grid_names': gn},
                        'wmts': {'restful': True, 'kvp': True},
                        'wms': {'srs': [spec['srs']], 'image_formats': ['image/png'], 'md': {'title': 't'}}}
    if spec['max_tile_age'] is not None:
        conf['globals']['tiles'] = {'expires_hours': spec['max_tile_age']}
    sc = scenario.Scenario(d, conf)
    grid = sc.grid('g')
    lat = upstream.Lattice.from_grid(grid)
    state = {'epoch': 0}
    up = upstream.install()
    pat = Pattern(lat, [grid.grid_sizes[z] for z in range(grid.levels)], state, spec['content'] == 'flat')
    up.register('c20wms', pat.wms)
    up.register('c20tiles', pat.tiles)
    up.faults.clear()
    return sc, grid, lat, state, up


def discover(sc, spec, grid, lat):
    """URL builders (x, y, z internal -> path) taken from the services' own documents"""
    svc = spec['service']
    sizes = grid.grid_sizes
    ul = spec['origin'] == 'ul'

    def row_from_bottom(y, z):
        return sizes[z][1] - 1 - y if ul else y

    def row_from_top(y, z, height=None):
        h = height if height is not None else sizes[z][1]
        return y if ul else h - 1 - y

    if svc in ('tms', 'tiles', 'kml'):
        root = sc.get('/tms/1.0.0/').body.decode('utf-8', 'replace')
        m = re.search(r'href="http://localhost(/tms/1\.0\.0/([^"/]+/[^"/]+))"', root)
        layer_path, layer_spec = m.group(1), m.group(2)
        if svc == 'kml':
            doc = sc.get('/kml/%s/0/0/0.kml' % layer_spec).body.decode('utf-8', 'replace')
            m = re.search(r'<href>http://localhost(/kml/[^<]+?)/\d+/\d+/\d+\.(\w+)</href>\s*</Icon>', doc)
            if not m:
                m = re.search(r'<Icon>\s*<href>http://localhost(/kml/[^<]+?)/\d+/\d+/\d+\.(\w+)</href>', doc)
            base, ext = m.group(1), m.group(2)
            return lambda x, y, z: '%s/%d/%d/%d.%s' % (base, z, x, row_from_bottom(y, z), ext)
        doc = sc.get(layer_path).body.decode('utf-8', 'replace')
        sets = {}
        for href, order in re.findall(r'<TileSet href="http://localhost([^"]+)"[^>]*order="(\d+)"', doc):
            sets[int(order)] = href
        ext = re.search(r'extension="(\w+)"', doc).group(1)
        if svc == 'tiles':
            # the /tiles alias of the same server addresses rows in the grid's own origin (no TMS flip)
            sets = dict((k, v.replace('/tms/1.0.0/', '/tiles/', 1)) for k, v in sets.items())
            return lambda x, y, z: '%s/%d/%d.%s' % (sets[z], x, y, ext)
        return lambda x, y, z: '%s/%d/%d.%s' % (sets[z], x, row_from_bottom(y, z), ext)
    if svc in ('wmts_kvp', 'wmts_rest'):
        ns = {'w': 'http://www.opengis.net/wmts/1.0', 'ows': 'http://www.opengis.net/ows/1.1'}
        xl = '{http://www.w3.org/1999/xlink}href'
        if svc == 'wmts_kvp':
            caps = ET.fromstring(sc.get('/service?SERVICE=WMTS&REQUEST=GetCapabilities&VERSION=1.0.0').body)
        else:
            caps = ET.fromstring(sc.get('/wmts/1.0.0/WMTSCapabilities.xml').body)
        layer = caps.find('w:Contents/w:Layer', ns)
        lid = layer.find('ows:Identifier', ns).text
        style = layer.find('w:Style/ows:Identifier', ns).text
        fmt = layer.find('w:Format', ns).text
        msid = layer.find('w:TileMatrixSetLink/w:TileMatrixSet', ns).text
        mats = []
        for ms in caps.findall('w:Contents/w:TileMatrixSet', ns):
            if ms.find('ows:Identifier', ns).text == msid:
                for tmx in ms.findall('w:TileMatrix', ns):
                    mats.append((tmx.find('ows:Identifier', ns).text, int(tmx.find('w:MatrixHeight', ns).text)))
        if svc == 'wmts_kvp':
            ep = None
            for op in caps.findall('ows:OperationsMetadata/ows:Operation', ns):
                if op.get('name') == 'GetTile':
                    ep = op.find('ows:DCP/ows:HTTP/ows:Get', ns).get(xl)
            ep = ep.replace('http://localhost', '')
            return lambda x, y, z: ('%sSERVICE=WMTS&REQUEST=GetTile&VERSION=1.0.0&LAYER=%s&STYLE=%s&TILEMATRIXSET=%s&'
                                    'TILEMATRIX=%s&TILEROW=%d&TILECOL=%d&FORMAT=%s' % (
                                        ep, lid, style, msid, mats[z][0], row_from_top(y, z, mats[z][1]), x, fmt))
        tpl = None
        for ru in layer.findall('w:ResourceURL', ns):
            if ru.get('resourceType') == 'tile':
                tpl = ru.get('template')
        tpl = tpl.replace('http://localhost', '')

        def rest(x, y, z):
            u = tpl.replace('{TileMatrixSet}', msid).replace('{TileMatrix}', mats[z][0]).replace('{TileCol}', str(x))
            u = u.replace('{TileRow}', str(row_from_top(y, z, mats[z][1]))).replace('{Style}', style).replace('{Layer}', lid)
            return u
        return rest
    # WMS-C: TileSet of the 1.1.1 capabilities; the rectangle itself from the harness's own lattice arithmetic
    caps = sc.get('/service?SERVICE=WMS&REQUEST=GetCapabilities&VERSION=1.1.1&tiled=true').body.decode('utf-8', 'replace')
    ts = re.search(r'<TileSet>(.*?)</TileSet>', caps, re.S).group(1)
    srs = re.search(r'<SRS>([^<]+)</SRS>', ts).group(1)
    w = int(re.search(r'<Width>(\d+)</Width>', ts).group(1))
    h = int(re.search(r'<Height>(\d+)</Height>', ts).group(1))
    fmt = re.search(r'<Format>([^<]+)</Format>', ts).group(1)
    layers = re.search(r'<Layers>([^<]+)</Layers>', ts).group(1)
    ep = re.search(r'<GetMap>.*?xlink:href="http://localhost([^"]+)"', caps, re.S).group(1)

    def wmsc(x, y, z):
        b = tile_rect(lat, x, y, z)
        return '%sSERVICE=WMS&VERSION=1.1.1&REQUEST=GetMap&LAYERS=%s&STYLES=&SRS=%s&BBOX=%s&WIDTH=%d&HEIGHT=%d&FORMAT=%s&TILED=true' % (
            ep, layers, srs, ','.join(repr(v) for v in b), w, h, fmt)
    return wmsc


# ---- history generation ---------------------------------------------------------------------------------------------------

INM_KINDS = ['inm_current', 'inm_current', 'inm_current_quoted', 'inm_current_weak', 'inm_current_list', 'inm_star',
             'inm_stale', 'inm_stale', 'inm_creating', 'inm_uncacheable', 'inm_garbage']
IMS_KINDS = ['ims_equal', 'ims_older', 'ims_older', 'ims_newer', 'ims_far_future', 'ims_equal_rfc850', 'ims_equal_asctime',
             'ims_stale', 'ims_unparseable', 'ims_invalid_date', 'ims_pre1970', 'ims_tz_offset_earlier', 'ims_tz_offset_later']
BOTH_KINDS = ['both_current_older', 'both_stale_newer', 'both_garbage_older', 'both_stale_unparseable', 'both_stale_stale',
              'both_garbage_equal']
ALL_KINDS = INM_KINDS + IMS_KINDS + BOTH_KINDS
GARBAGE = ['deadbeef', '', '"', 'None', 'd41d8cd98f00b204e9800998ecf8427e', '""', 'W/', '0', ',', 'c7485dcc8d256a6f197ed7802687f25']
UNPARSEABLE = ['yesterday', '', '12345', '2026-10-02T18:54:55Z', 'Fri, 02 Foo 2026 18:54:55 GMT', 'Fri, 02 Oct 2026', '-1', 'GMT']


def gen_ops(rng, spec):
    meta = spec['path'] != 'single'
    ops = [['get'], ['get']]

    def conds(n, pool=ALL_KINDS):
        for _ in range(n):
            ops.append(['cond', rng.choice(pool), rng.randrange(1000)])
    conds(rng.randint(2, 5))
    for _ in range(rng.randint(2, 4)):
        if rng.random() < 0.62:
            by = 'get' if rng.random() < 0.55 else rng.choice(['inm_stale', 'inm_creating', 'inm_current', 'ims_equal',
                                                               'ims_newer', 'inm_uncacheable', 'both_stale_newer'])
            file_b = spec['backend'] == 'file'
            ops.append(['rewrite', {
                'via': rng.choice(['api', 'raw'] + (['neighbour', 'neighbour'] if meta else []) +
                                  (['expire', 'expire', 'expire'] if spec.get('expiry') else [])),
                'epoch': rng.random() < 0.8,
                'by': by, 'v': rng.randrange(1000),
                'touch': rng.choice(['natural', 'same_instant', 'same_instant', 'later', 'later', 'earlier'] +
                                    (['same_second_frac'] if file_b else [])),
                'dt': rng.choice([1, 1, 2, 61, 3600, 86400 * 30])}])
            ops.append(['get'])
            ops.append(['cond', 'inm_stale', rng.randrange(1000)])
            if rng.random() < 0.5:
                ops.append(['cond', 'ims_stale', rng.randrange(1000)])
            conds(rng.randint(1, 4))
        else:
            ops.append(['fault', {
                'mode': rng.choice(['all', 'all'] + (['target', 'target'] if spec['src'] == 'tile' else [])),
                'remove': rng.choice(['tile'] + (['block'] if meta else [])),
                'conds': [[rng.choice(['inm_current', 'inm_stale', 'inm_creating', 'inm_uncacheable', 'inm_garbage', 'inm_star',
                                       'ims_equal', 'ims_newer', 'ims_far_future', 'both_stale_newer']), rng.randrange(1000)]
                          for _ in range(rng.randint(1, 3))]}])
            conds(rng.randint(1, 3))
    if spec.get('link_single'):
        # a tile linked to an ALREADY EXISTING single-colour file (same colour again): re-create twice, the second time
        # with the validator the first re-creating response handed out
        lvia = ['api', 'raw'] + (['expire', 'expire'] if spec.get('expiry') else [])
        ops.append(['rewrite', {'via': rng.choice(lvia), 'epoch': False, 'by': rng.choice(['get', 'inm_current']), 'v': rng.randrange(1000),
                                'touch': 'natural', 'dt': 1}])
        ops.append(['rewrite', {'via': rng.choice(lvia), 'epoch': False, 'by': rng.choice(['inm_creating', 'inm_current', 'ims_equal']), 'v': rng.randrange(1000),
                                'touch': rng.choice(['natural', 'later']), 'dt': 2}])
        ops.append(['get'])
    return ops


def gen_cases(run):
    n = run.pick(1300, 20000)
    for i in range(n):
        if i % 16 == 5:
            yield {'i': i, 'kind': 'cascade'}
        if i % 16 == 11:
            yield {'i': i, 'kind': 'wmsc2'}
        yield {'i': i}


# ---- two small families outside the single-tile histories ---------------------------------------------------------------

_WORLD = [-20037508.342789244, -20037508.342789244, 20037508.342789244, 20037508.342789244]


def _png(size, colour, left_transparent=False):
    import io as _io
    from PIL import Image
    im = Image.new('RGBA', size, tuple(colour) + (255,))
    if left_transparent:
        im.paste((0, 0, 0, 0), (0, 0, size[0] // 2, size[1]))
    im.putpixel((size[0] - 2, size[1] - 2), (9, 9, 9, 255))       # never single coloured
    b = _io.BytesIO()
    im.save(b, 'PNG')
    return b.getvalue()


def _hdr(r, name):
    return r.header(name)


def _cache_control(r):
    return ','.join(v for k, v in r.headers if k.lower() == 'cache-control').lower()


def _tile_files(root):
    out = []
    for rt, _, fs in os.walk(root):
        for f in fs:
            if f.endswith('.png') or f.endswith('.jpeg'):
                out.append(os.path.join(rt, f))
    return out


def run_cascade(run, case, d):
    """a cache fed by another cache (same SRS and resolutions, other tile size: tiles are cut out of the inner cache's tiles
    without resampling). While the upstream fails, the inner source answers with its on_error fill image (cache: false):
    that image must not be stored in either cache and must be sent with no-store by every tile service."""
    rng = run.rng('cascade', case['i'])
    inner_src = rng.choice(['tile', 'tile', 'wms'])
    svc = rng.choice(['tiles', 'tms', 'wmts_rest', 'wmts_kvp', 'kml'])
    state = {'fail': True, 'epoch': 0}
    up = upstream.install()
    up.faults.clear()

    def handler(call):
        if state['fail']:
            return upstream.Resp(b'upstream broken', 'text/plain', 500)
        if call.kind == 'getmap':
            try:
                size = (int(call.params.get('width', 128)), int(call.params.get('height', 128)))
            except ValueError:
                size = (128, 128)
        else:
            size = (128, 128)
        return upstream.Resp(_png((max(1, min(size[0], 2048)), max(1, min(size[1], 2048))), (20, 160, 60 + 40 * state['epoch'])), 'image/png')
    up.register('casc', handler)
    res = [(_WORLD[2] - _WORLD[0]) / 64 / 2 ** z for z in range(5)]
    conf = scenario.base_conf()
    conf['grids']['g'] = {'srs': 'EPSG:3857', 'bbox': list(_WORLD), 'tile_size': [64, 64], 'res': res, 'origin': 'll'}
    conf['grids']['gi'] = {'srs': 'EPSG:3857', 'bbox': list(_WORLD), 'tile_size': [128, 128], 'res': res, 'origin': 'll'}
    on_error = {500: {'response': '#ff0000', 'cache': False}}
    if inner_src == 'tile':
        conf['sources']['src'] = {'type': 'tile', 'url': 'http://casc/t/%(z)s/%(x)s/%(y)s.png', 'grid': 'gi', 'on_error': on_error}
    else:
        conf['sources']['src'] = {'type': 'wms', 'req': {'url': 'http://casc/service?', 'layers': 'a'}, 'supported_srs': ['EPSG:3857'],
                                  'on_error': on_error}
    conf['caches']['ci'] = {'grids': ['gi'], 'sources': ['src'], 'format': 'image/png', 'request_format': 'image/png',
                            'meta_size': [1, 1] if inner_src == 'tile' else rng.choice([[1, 1], [2, 2]]), 'meta_buffer': 0}
    conf['caches']['c'] = {'grids': ['g'], 'sources': ['ci'], 'format': 'image/png', 'request_format': 'image/png',
                           'meta_size': rng.choice([[1, 1], [2, 2]]), 'meta_buffer': 0}
    conf['layers'] = [{'name': 'l', 'title': 'l', 'sources': ['c']}]
    conf['services'] = {'tms': {'use_grid_names': True}, 'kml': {'use_grid_names': True}, 'wmts': {'restful': True, 'kvp': True}}
    sc = scenario.Scenario(d, conf)
    z = rng.randint(2, 4)
    n = 2 ** (z + 1)            # level z has 2**(z+1) x 2**(z+1) tiles of 64 px ... res[0] = world/64/1 -> 1 tile... see below
    nx, ny = sc.grid('g').grid_sizes[z]
    x, y = rng.randrange(nx), rng.randrange(ny)
    rows = ny - 1 - y           # row counted from the top
    url = {'tiles': '/tiles/l/g/%d/%d/%d.png' % (z, x, y), 'tms': '/tms/1.0.0/l/g/%d/%d/%d.png' % (z, x, y),
           'kml': '/kml/l/g/%d/%d/%d.png' % (z, x, y), 'wmts_rest': '/wmts/l/g/%02d/%d/%d.png' % (z, x, rows),
           'wmts_kvp': '/service?SERVICE=WMTS&VERSION=1.0.0&REQUEST=GetTile&LAYER=l&STYLE=&TILEMATRIXSET=g&TILEMATRIX=%02d&TILEROW=%d&'
                       'TILECOL=%d&FORMAT=image/png' % (z, rows, x)}[svc]
    mech0 = {'mode': 'cascade', 'inner_source': inner_src, 'service': FAMILY.get(svc, svc)}
    hist = []
    croot = os.path.join(d, 'cache_data')

    def bad(clause, detail):
        run.violation(dict(mech0, clause=clause), case, 'cache fed by a cache (inner source %s, via %s): %s | history: %s' % (
            inner_src, svc, detail, ' ; '.join(hist)))
    # 1) upstream failing: fill image, uncacheable everywhere
    r = sc.get(url)
    cc = _cache_control(r)
    hist.append('upstream 500: %s -> %d %s Cache-Control=%r ETag=%r, %d tile files stored' % (url, r.code, r.content_type, cc, _hdr(r, 'ETag'), len(_tile_files(croot))))
    run.judge(('cascade', inner_src, svc, 'fill'), nontrivial=True)
    run.hit('uncacheable_tiles_checked')
    run.hit('cascade_fill_responses_checked')
    if r.code != 200 or not r.content_type.startswith('image/'):
        run.dc('cascade_fill_not_served_%s' % r.code)
        return
    px = r.image().convert('RGB').getpixel((5, 5))
    if px != (255, 0, 0):
        run.dc('cascade_fill_image_not_the_configured_colour')
        return
    if 'no-store' not in cc:
        bad('uncacheable_headers', 'error fill image (on_error ... cache: false on the inner source) sent without no-store: Cache-Control=%r '
            'ETag=%r Last-Modified=%r' % (cc, _hdr(r, 'ETag'), _hdr(r, 'Last-Modified')))
        return
    stored = _tile_files(croot)
    if stored:
        bad('uncacheable_tile_stored', 'the fill image was stored: %r' % ([os.path.relpath(p_, croot) for p_ in stored[:4]],))
        return
    # 2) upstream healthy: real content, cacheable, stable validators
    state['fail'] = False
    r2 = sc.get(url)
    hist.append('upstream ok: -> %d Cache-Control=%r ETag=%r' % (r2.code, _cache_control(r2), _hdr(r2, 'ETag')))
    if r2.code != 200:
        bad('repeat_status', 'healthy upstream, answered %d %r' % (r2.code, r2.body[:200]))
        return
    if r2.image().convert('RGB').getpixel((5, 5)) == (255, 0, 0):
        bad('fill_image_served_after_recovery', 'the upstream recovered but the red fill image is still served')
        return
    r3 = sc.get(url)
    r4 = sc.get(url)
    run.hit('repeat_pairs_compared')
    if (_hdr(r3, 'ETag'), _hdr(r3, 'Last-Modified'), r3.body) != (_hdr(r4, 'ETag'), _hdr(r4, 'Last-Modified'), r4.body):
        bad('repeat_differs', 'two requests for the stored tile differ: ETag %r/%r Last-Modified %r/%r body equal %s' % (
            _hdr(r3, 'ETag'), _hdr(r4, 'ETag'), _hdr(r3, 'Last-Modified'), _hdr(r4, 'Last-Modified'), r3.body == r4.body))
        return
    run.hit('cascade_histories')


def run_wmsc2(run, case, d):
    """WMS-C request for two cached layers: the answer is composed of one tile of each cache. Whatever validators it carries
    must not let a client keep the old picture after the BOTTOM tile was rewritten."""
    rng = run.rng('wmsc2', case['i'])
    state = {'bottom': 0, 'top': 0}
    up = upstream.install()
    up.faults.clear()

    def mk(which, transparent):
        def handler(call):
            try:
                size = (int(call.params.get('width', 64)), int(call.params.get('height', 64)))
            except ValueError:
                size = (64, 64)
            e = state[which]
            col = (30 + 50 * e, 90, 200) if which == 'bottom' else (230, 200 - 60 * e, 20)
            return upstream.Resp(_png((max(1, min(size[0], 1024)), max(1, min(size[1], 1024))), col, left_transparent=transparent), 'image/png')
        return handler
    up.register('wbottom', mk('bottom', False))
    up.register('wtop', mk('top', True))
    backend = rng.choice(['file', 'sqlite'])
    conf = scenario.base_conf()
    conf['grids']['g'] = {'srs': 'EPSG:3857', 'bbox': list(_WORLD), 'tile_size': [64, 64], 'num_levels': 5, 'origin': 'll'}
    for nm, host, tr in (('bottom', 'wbottom', False), ('top', 'wtop', True)):
        conf['sources']['s_' + nm] = {'type': 'wms', 'req': {'url': 'http://%s/service?' % host, 'layers': 'a', 'transparent': tr},
                                      'supported_srs': ['EPSG:3857']}
        conf['caches']['c_' + nm] = {'grids': ['g'], 'sources': ['s_' + nm], 'format': 'image/png', 'request_format': 'image/png',
                                     'meta_size': [1, 1], 'meta_buffer': 0,
                                     'cache': {'type': 'sqlite'} if backend == 'sqlite' else {'type': 'file', 'directory_layout': 'tc'}}
        conf['layers'].append({'name': nm, 'title': nm, 'sources': ['c_' + nm]})
    conf['services'] = {'wms': {'srs': ['EPSG:3857'], 'image_formats': ['image/png'], 'md': {'title': 't'}}, 'tms': {}}
    sc = scenario.Scenario(d, conf)
    grid = sc.grid('g')
    z = rng.randint(1, 3)
    nx, ny = grid.grid_sizes[z]
    x, y = rng.randrange(nx), rng.randrange(ny)
    bb = grid.tile_bbox((x, y, z))
    url = ('/service?SERVICE=WMS&VERSION=1.1.1&REQUEST=GetMap&LAYERS=bottom,top&STYLES=&SRS=EPSG:3857&BBOX=%s&WIDTH=64&HEIGHT=64&'
           'FORMAT=image/png&TRANSPARENT=TRUE&TILED=true' % ','.join(repr(float(v)) for v in bb))
    hist = []
    mech0 = {'mode': 'wmsc_two_layers', 'backend': backend}
    r1 = sc.get(url)
    if r1.code != 200:
        run.dc('wmsc_two_layer_request_refused_%d' % r1.code)
        return
    e1, lm1 = _hdr(r1, 'ETag'), _hdr(r1, 'Last-Modified')
    hist.append('two-layer WMS-C tile -> 200 ETag=%r Last-Modified=%r' % (e1, lm1))
    run.hit('wmsc_two_layer_histories')
    run.judge(('wmsc2', backend, bool(e1), bool(lm1)), nontrivial=True)
    # rewrite the bottom tile (remove it, new epoch, request again); the top tile stays
    from mapproxy.cache.tile import Tile
    state['bottom'] += 1
    which = rng.choice(['bottom', 'bottom', 'top'])
    if which == 'top':
        state['bottom'] -= 1
        state['top'] += 1
    tm = sc.tile_manager('c_' + which)
    tm.cache.remove_tile(Tile((x, y, z)))
    if lm1:
        time.sleep(1.1)       # whole-second validators: the rewrite is later than Last-Modified by the clock, too
    r2 = sc.get(url)
    hist.append('%s tile rewritten -> %d ETag=%r body changed %s' % (which, r2.code, _hdr(r2, 'ETag'), r2.body != r1.body))
    if r2.code != 200 or r2.body == r1.body:
        run.dc('wmsc_two_layer_rewrite_not_visible')
        return
    for name, hv in (('If-None-Match', e1), ('If-Modified-Since', lm1)):
        if not hv:
            continue
        rc = sc.get(url, headers={name: hv})
        run.hit('unjustified_304_checks')
        hist.append('%s: %s -> %d' % (name, hv, rc.code))
        if rc.code == 304:
            run.violation(dict(mech0, clause='304_content_changed', header=name, rewritten=which), case,
                          'two-layer WMS-C tile: the %s tile was rewritten (the composed picture changed), a request with the old %s %r is '
                          'answered 304 | history: %s' % (which, name, hv, ' ; '.join(hist)))
            return


# ---- one history ----------------------------------------------------------------------------------------------------------

def run_case(run, case):
    if case.get('kind') in ('cascade', 'wmsc2'):
        d = run.subdir('c20x')
        try:
            (run_cascade if case['kind'] == 'cascade' else run_wmsc2)(run, case, d)
        finally:
            upstream.install().faults.clear()
            shutil.rmtree(d, ignore_errors=True)
        return
    rng = run.rng('case', case['i'])
    spec = case.get('spec') or gen_spec(rng)
    ops = case.get('ops') or gen_ops(rng, spec)
    d = run.subdir('c20')
    h = None
    old_tz = os.environ.get('TZ')
    os.environ['TZ'] = spec.get('tz', 'UTC')
    time.tzset()
    try:
        h = History(run, dict(case, spec=spec, ops=ops), spec, d)
        run.count('histories_tz_' + spec.get('tz', 'UTC'))
        h.execute(ops)
    finally:
        if old_tz is None:
            os.environ.pop('TZ', None)
        else:
            os.environ['TZ'] = old_tz
        time.tzset()
        upstream.install().faults.clear()
        if h is not None and getattr(h, 'tm', None) is not None:
            try:
                h.tm.cleanup()
                if hasattr(h.rec._c, 'cleanup'):
                    h.rec._c.cleanup()
            except Exception:
                pass
        shutil.rmtree(d, ignore_errors=True)


class History(object):
    def __init__(self, run, case, spec, d):
        self.run = run
        self.case = case
        self.spec = spec
        self.d = d
        self.expire_window = None
        self.sc, self.grid, self.lat, self.state, self.up = build(spec, d)
        self.tm = self.sc.tile_manager('c')
        tx, ty, tz = spec['tile']
        self.T = (tx % self.grid.grid_sizes[tz][0], ty % self.grid.grid_sizes[tz][1], tz)
        self.svc = spec['service']
        self.fam = FAMILY[self.svc]
        self.meta = spec['path'] != 'single'
        # the configuration must have produced the creation path the case is about
        have_meta = self.tm.meta_grid is not None
        is_bulk = bool(getattr(self.tm.creator(), 'bulk_meta_tiles', False))
        if have_meta != self.meta or is_bulk != (spec['path'] == 'bulk'):
            raise RuntimeError('configuration did not produce path %s (meta_grid=%r bulk=%r)' % (
                spec['path'], self.tm.meta_grid, is_bulk))
        self.url_for = discover(self.sc, spec, self.grid, self.lat)
        self.url = self.url_for(*self.T)
        self.rec = Rec(self.tm.cache, self.T)
        self.tm.cache = self.rec
        self.refs = {}          # generation -> validators of the tile as stored in that generation
        self.memory = []        # everything a client has been handed: {'etag','lm','sha','gen','kind','meta'}
        self.last_ref = None
        self.fault = None
        self.last_rewrite = 'none'
        self.forced = set()     # generations whose timestamp was set by the harness
        self.blocks = 0
        self.log = []
        self.failed = False
        self.nbad = 0
        self.verified_addr = False
        x, y, z = self.T
        bx, by = (x // 2) * 2, (y // 2) * 2
        nx, ny = self.grid.grid_sizes[z]
        self.block = [(xx, yy, z) for xx in (bx, bx + 1) for yy in (by, by + 1) if xx < nx and yy < ny]
        self.neigh = [c for c in self.block if c != self.T]
        if spec['backend'] == 'file':
            from mapproxy.cache.tile import Tile
            self.path = self.rec._c.tile_location(Tile(self.T))
        else:
            self.path = os.path.join(self.rec._c.cache_dir, '%d.mbtile' % z)

    # -- independent view of the stored tile's timestamp and size --
    def read_meta(self):
        x, y, z = self.T
        if self.spec['backend'] == 'file':
            try:
                st = os.lstat(self.path)
            except OSError:
                return None
            return [str(st.st_mtime_ns), st.st_size]
        if not os.path.exists(self.path):
            return None
        con = sqlite3.connect(self.path, timeout=10)
        try:
            row = con.execute('SELECT last_modified, length(tile_data) FROM tiles WHERE zoom_level=? AND tile_column=? AND tile_row=?',
                              (z, x, y)).fetchone()
        finally:
            con.close()
        return [row[0], row[1]] if row else None

    def set_ts(self, kind, prev, dt):
        """put the stored tile's timestamp relative to `prev` (meta of the generation before the rewrite)"""
        x, y, z = self.T
        if self.spec['backend'] == 'file':
            p = int(prev[0])
            if kind == 'same_instant':
                ns = p
            elif kind == 'same_second_frac':
                ns = (p // 10**9) * 10**9 + (p % 10**9 + 123456789) % 10**9
            elif kind == 'later':
                ns = p + dt * 10**9
            else:
                ns = p - dt * 10**9
            os.utime(self.path, ns=(ns, ns), follow_symlinks=False)
        else:
            t = datetime.datetime.strptime(prev[0], '%Y-%m-%d %H:%M:%S')
            if kind == 'later':
                t = t + datetime.timedelta(seconds=dt)
            elif kind == 'earlier':
                t = t - datetime.timedelta(seconds=dt)
            con = sqlite3.connect(self.path, timeout=10)
            try:
                con.execute('UPDATE tiles SET last_modified=? WHERE zoom_level=? AND tile_column=? AND tile_row=?',
                            (t.strftime('%Y-%m-%d %H:%M:%S'), z, x, y))
                con.commit()
            finally:
                con.close()
        self.rec.gen += 1          # harness-made rewrite of the tile's metadata: new generation
        self.forced.add(self.rec.gen)
        self.rec.events.append('touch')
        self.note('touch %s -> %r' % (kind, self.read_meta()))

    def raw_remove(self):
        x, y, z = self.T
        if self.spec['backend'] == 'file':
            os.remove(self.path)
        else:
            con = sqlite3.connect(self.path, timeout=10)
            try:
                con.execute('DELETE FROM tiles WHERE zoom_level=? AND tile_column=? AND tile_row=?', (z, x, y))
                con.commit()
            finally:
                con.close()
        self.rec.note('remove', [self.T])

    # -- bookkeeping --
    def note(self, s):
        self.log.append(s)

    def witness(self, n=14):
        return ' || '.join(self.log[-n:])

    def bad(self, mech, detail):
        self.nbad += 1
        if self.nbad >= 8:
            self.failed = True       # enough objections from one history
        m = dict(mech)
        self.run.violation(m, self.case, '%s | service=%s backend=%s path=%s content=%s tile=%r | history (last steps): %s' % (
            detail, self.svc, self.spec['backend'], self.spec['path'], self.spec['content'], self.T, self.witness()))

    def cls(self, what):
        return (self.svc, self.spec['backend'], self.spec['path'], what, self.last_rewrite)

    # -- requests --
    def request(self, headers, kind, client=None, url=None):
        run = self.run
        rec = self.rec
        g0, st0 = rec.gen, rec.stored
        nload = len(rec.loads)
        r = self.sc.get(url or self.url, headers=headers or None)
        if self.expire_window:
            # the refresh rule was moved to 2100 for exactly this one request (the reference request below must not re-create)
            os.utime(self.expire_window, (MARKER_ANCIENT, MARKER_ANCIENT))
            self.expire_window = None
        g1, st1 = rec.gen, rec.stored
        sha = hashlib.sha1(r.body).hexdigest()[:12]
        v = {'etag': r.header('ETag'), 'lm': r.header('Last-Modified'), 'sha': sha, 'len': len(r.body)}
        self.note('%s %s%s -> %d etag=%s lm=%s cc=%s len=%d sha=%s gen %d->%d' % (
            kind, 'NEIGHBOUR ' if url else '', dict(headers) if headers else '{}', r.code, v['etag'], v['lm'],
            '|'.join(val for k, val in r.headers if k.lower() == 'cache-control'), len(r.body), sha, g0, g1))
        run.count('requests')
        if url is not None:
            return r
        if not self.verified_addr:
            # harness self-check: the URL built from the capabilities addresses the intended internal tile
            first = rec.loads[nload] if len(rec.loads) > nload else None
            if first != [self.T]:
                raise RuntimeError('URL %s loaded %r, expected %r' % (self.url, first, self.T))
            self.verified_addr = True
        if self.fault and not st0 and not st1 and g0 == g1:
            self.judge_uncacheable(r, headers, kind, v)
            return r
        if not st1:
            run.count('tile_not_stored_without_fault')
            return r
        creating = g0 != g1
        if r.code == 200:
            if creating:
                run.count('creating_responses')
                self.memory.append(dict(v, gen=g1, kind='creating', meta=None))
            else:
                self.observe(v, g1)
        if headers:
            if g1 not in self.refs and rec.gen == g1:
                self.request({}, 'get(reference)')
            self.judge_cond(r, headers, kind, client, creating, g1)
        elif r.code != 200:
            run.judge(self.cls('repeat'), True)
            self.bad({'clause': 'repeat_status', 'code': r.code}, 'unconditional request for a stored tile answered %d %r' % (r.code, r.body[:200]))
        return r

    def observe(self, v, gen):
        run = self.run
        ref = self.refs.get(gen)
        if ref is None:
            meta = self.read_meta()
            ref = dict(v, gen=gen, meta=meta, kind='stable')
            self.refs[gen] = ref
            self.memory.append(ref)
            self.last_ref = ref
            cre = [m for m in self.memory if m['kind'] == 'creating' and m['gen'] == gen]
            if cre and (cre[-1]['etag'] != v['etag'] or cre[-1]['lm'] != v['lm']):
                run.count('creating_response_validators_differ_from_stored')
            return
        run.hit('repeat_pairs_compared')
        run.judge(self.cls('repeat'), nontrivial=self.blocks > 0)
        diff = [k for k in ('etag', 'lm', 'sha') if v[k] != ref[k]]
        if diff:
            self.bad({'clause': 'repeat_differs', 'what': diff},
                     'two 200 responses of one generation differ in %s: first %r, now %r' % (
                         diff, dict((k, ref[k]) for k in ('etag', 'lm', 'sha')), dict((k, v[k]) for k in ('etag', 'lm', 'sha'))))
        if v['etag'] is None:
            run.count('stored_tile_served_without_etag')

    def judge_uncacheable(self, r, headers, kind, v):
        run = self.run
        if r.code == 304:
            run.hit('unjustified_304_checks')
            run.judge(self.cls('uncacheable_cond:' + kind), True)
            self.bad({'clause': 'unjustified_304', 'situation': 'uncacheable', 'service': self.fam, 'meta': self.meta},
                     '304 although no tile is stored (upstream error mapped to an uncached fill image); request headers %r' % (headers,))
            return
        if r.code != 200:
            run.dc('fault_not_mapped_to_fill_status_%d' % r.code)
            return
        try:
            arr = np.asarray(r.image().convert('RGB'))
            fill = bool((arr == np.array(FILL, dtype=np.uint8)).all())
        except Exception:
            fill = False
        if not fill:
            run.dc('fault_response_is_not_the_fill_image')
            return
        run.hit('uncacheable_tiles_checked')
        run.hit('uncacheable_' + self.fam + ('_meta' if self.meta else '_single'))
        run.judge(self.cls('uncacheable:' + str(self.fault)), True)
        cc = ','.join(val for k, val in r.headers if k.lower() == 'cache-control').lower()
        dirs = [x.strip() for x in cc.split(',') if x.strip()]
        positive = 'public' in dirs
        for x in dirs:
            m = re.match(r'^(max-age|s-maxage)\s*=\s*"?(\d+)', x)
            if m and int(m.group(2)) > 0:
                positive = True
        if 'no-store' not in dirs:
            self.bad({'clause': 'uncacheable_headers', 'service': self.fam, 'meta': self.meta},
                     'error fill image (must not be cached) sent without no-store: Cache-Control=%r ETag=%r' % (cc, v['etag']))
        elif positive:
            run.dc('uncacheable_no_store_plus_public_or_max_age:' + self.fam)
        self.memory.append(dict(v, gen=None, kind='uncacheable', meta=None))

    def judge_cond(self, r, headers, kind, client, creating, gen):
        run = self.run
        ref = self.refs.get(gen)
        if ref is None:
            run.count('conditional_without_reference')
            return
        inm = headers.get('If-None-Match')
        ims = headers.get('If-Modified-Since')
        E, LM = ref['etag'], ref['lm']
        exact = inm is not None and E is not None and inm == E
        run.judge(self.cls(kind + ('/creating' if creating else '')), True)
        if exact and not creating and (client is None or client['sha'] == ref['sha']):
            # (if the equal ETag was handed out with other bytes, the 304_content_changed clause below decides)
            run.hit('etag_304_checked')
            if r.code != 304:
                self.bad({'clause': 'current_etag_not_304', 'header': kind},
                         'request carrying the current ETag %r answered %d' % (E, r.code))
        if r.code == 304:
            run.hit('unjustified_304_checks')
            if r.body:
                self.bad({'clause': '304_with_body'}, '304 with %d body bytes' % len(r.body))
            if r.header('ETag') is not None and r.header('ETag') != E:
                run.count('etag_in_304_differs_from_stored')
            why = None
            if exact:
                why = 'etag'
            elif rfc_match(inm, E):
                why = 'etag_rfc'
            else:
                how, ok = ims_match(ims, LM)
                if ok:
                    why = 'ims_' + how
            if why is None:
                if creating:
                    mech = {'clause': 'unjustified_304', 'situation': 'creating', 'service': self.fam, 'meta': self.meta,
                            'linked_single_colour': bool(self.spec.get('link_single'))}
                else:
                    mech = {'clause': 'unjustified_304', 'situation': 'stored', 'header': kind}
                self.bad(mech, '304 although no validator sent matches the tile as stored now: sent %r; stored tile has ETag=%r '
                         'Last-Modified=%r (If-Modified-Since judged %s)' % (headers, E, LM, ims_match(ims, LM)[0]))
                return
            run.count('304_justified_by_' + why)
            if why == 'ims_lenient':
                run.dc('304_on_leniently_parsed_date')
            if inm is not None and why.startswith('ims'):
                run.dc('304_by_if_modified_since_despite_nonmatching_if_none_match')
            if client is not None and client['sha'] != ref['sha']:
                if why.startswith('etag'):
                    cm, rm = client.get('meta'), ref.get('meta')
                    self.bad({'clause': '304_content_changed', 'backend': self.spec['backend'],
                              'same_timestamp': (cm[0] == rm[0]) if (cm and rm) else None,
                              'same_size': (cm[1] == rm[1]) if (cm and rm) else None,
                              'timestamp_set_by': 'harness' if (ref['gen'] in self.forced or client.get('gen') in self.forced) else 'cache'},
                             '304 for ETag %r that was handed out with other bytes (sha %s, stored meta %r) than the tile now stored '
                             '(sha %s, stored meta %r)' % (inm, client['sha'], cm, ref['sha'], rm))
                else:
                    run.dc('if_modified_since_304_although_rewritten_not_later_than_that_second')
        elif r.code == 200:
            if not exact and rfc_match(inm, E):
                run.dc('equivalent_etag_form_answered_200')
            if inm is None and ims_match(ims, LM)[1]:
                run.dc('if_modified_since_not_older_answered_200')
        else:
            self.bad({'clause': 'repeat_status', 'code': r.code},
                     'conditional request %r for a stored tile answered %d %r' % (headers, r.code, r.body[:200]))

    # -- conditional headers --
    def pick(self, kind):
        """memory entry of a given provenance, most recent first"""
        cur = self.last_ref
        if kind == 'stale':
            c = [m for m in self.memory if m['kind'] == 'stable' and m is not cur and cur is not None and m['sha'] != cur['sha']]
            if not c:
                c = [m for m in self.memory if m['kind'] == 'stable' and m is not cur]
        else:
            c = [m for m in self.memory if m['kind'] == kind]
        c = [m for m in c if m.get('etag') is not None or m.get('lm') is not None]
        return c[-1] if c else None

    def headers_for(self, kind, v):
        """-> (headers, client memory entry whose bytes the client holds for the validator it sends, or None)"""
        cur = self.last_ref or {'etag': None, 'lm': None}
        E = cur.get('etag') or 'none'
        lm_t = strict_httpdate(cur.get('lm')) if cur.get('lm') else None
        if lm_t is None:
            lm_t = 1700000000
        garbage = GARBAGE[v % len(GARBAGE)]
        stale = self.pick('stale')
        H, client = {}, None
        if kind == 'inm_current':
            H, client = {'If-None-Match': E}, cur
        elif kind == 'inm_current_quoted':
            H, client = {'If-None-Match': '"%s"' % E}, cur
        elif kind == 'inm_current_weak':
            H, client = {'If-None-Match': ['W/"%s"', 'W/%s'][v % 2] % E}, cur
        elif kind == 'inm_current_list':
            H, client = {'If-None-Match': ['"zzz", %s', '%s, "zzz"', '"a,b", "%s"', 'deadbeef,%s'][v % 4] % E}, cur
        elif kind == 'inm_star':
            H, client = {'If-None-Match': '*'}, cur
        elif kind == 'inm_stale':
            if stale and stale.get('etag'):
                H, client = {'If-None-Match': stale['etag']}, stale
            else:
                H = {'If-None-Match': garbage}
        elif kind in ('inm_creating', 'inm_uncacheable'):
            m = self.pick(kind[4:])
            if m and m.get('etag'):
                H, client = {'If-None-Match': m['etag']}, m
            else:
                H = {'If-None-Match': garbage}
        elif kind == 'inm_garbage':
            g = garbage
            if v % 3 == 0 and cur.get('etag'):
                g = [E[:-1], E.upper(), E + '0', E[1:]][(v // 3) % 4]
            H = {'If-None-Match': g}
        elif kind == 'ims_equal':
            H, client = {'If-Modified-Since': cur.get('lm') or fmt_imf(lm_t)}, cur
        elif kind == 'ims_older':
            H = {'If-Modified-Since': fmt_imf(lm_t - [1, 2, 3600, 86400 * 365, 59][v % 5])}
        elif kind == 'ims_newer':
            H, client = {'If-Modified-Since': fmt_imf(lm_t + [1, 2, 3600, 86400][v % 4])}, cur
        elif kind == 'ims_far_future':
            H, client = {'If-Modified-Since': ['Fri, 02 Oct 2099 18:54:55 GMT', 'Fri, 31 Dec 9999 23:59:59 GMT'][v % 2]}, cur
        elif kind == 'ims_equal_rfc850':
            H, client = {'If-Modified-Since': fmt_850(lm_t + (v % 2))}, cur
        elif kind == 'ims_equal_asctime':
            H, client = {'If-Modified-Since': fmt_asc(lm_t + (v % 2))}, cur
        elif kind == 'ims_stale':
            if stale and stale.get('lm'):
                H, client = {'If-Modified-Since': stale['lm']}, stale
            else:
                H = {'If-Modified-Since': fmt_imf(lm_t - 7)}
        elif kind == 'ims_unparseable':
            H = {'If-Modified-Since': UNPARSEABLE[v % len(UNPARSEABLE)]}
        elif kind == 'ims_invalid_date':
            d = _dt(lm_t)
            H = {'If-Modified-Since': ['Fri, 99 %s %04d 10:00:00 GMT' % (MON[d.month - 1], d.year),
                                       'Wed, 30 Feb %04d 10:00:00 GMT' % (d.year + 1),
                                       '%s, %02d %s %04d 25:61:61 GMT' % (WD[d.weekday()], d.day, MON[d.month - 1], d.year + 1),
                                       'Mon, 32 Dec %04d 00:00:00 GMT' % d.year][v % 4]}
        elif kind == 'ims_pre1970':
            H = {'If-Modified-Since': ['Sun, 06 Nov 1960 08:49:37 GMT', 'Sat, 01 Nov 1969 08:49:37 GMT', 'Mon, 01 Jan 1900 00:00:00 GMT'][v % 3]}
        elif kind == 'ims_tz_offset_earlier':
            # same wall-clock digits as Last-Modified but in a zone east of Greenwich: denotes an EARLIER instant
            H = {'If-Modified-Since': fmt_imf(lm_t).replace('GMT', ['+0200', '+0530', '+1200'][v % 3])}
        elif kind == 'ims_tz_offset_later':
            H, client = {'If-Modified-Since': fmt_imf(lm_t).replace('GMT', ['-0200', '-0800'][v % 2])}, cur
        elif kind == 'both_current_older':
            H, client = {'If-None-Match': E, 'If-Modified-Since': fmt_imf(lm_t - 3600)}, cur
        elif kind == 'both_stale_newer':
            e = stale['etag'] if stale and stale.get('etag') else garbage
            H, client = {'If-None-Match': e, 'If-Modified-Since': fmt_imf(lm_t + 5)}, (stale if stale and stale.get('etag') else None)
        elif kind == 'both_garbage_older':
            H = {'If-None-Match': garbage, 'If-Modified-Since': fmt_imf(lm_t - 5)}
        elif kind == 'both_stale_unparseable':
            e = stale['etag'] if stale and stale.get('etag') else garbage
            H, client = {'If-None-Match': e, 'If-Modified-Since': UNPARSEABLE[v % len(UNPARSEABLE)]}, (stale if stale and stale.get('etag') else None)
        elif kind == 'both_stale_stale':
            if stale and stale.get('etag') and stale.get('lm'):
                H, client = {'If-None-Match': stale['etag'], 'If-Modified-Since': stale['lm']}, stale
            else:
                H = {'If-None-Match': garbage, 'If-Modified-Since': fmt_imf(lm_t - 9)}
        elif kind == 'both_garbage_equal':
            H, client = {'If-None-Match': garbage, 'If-Modified-Since': cur.get('lm') or fmt_imf(lm_t)}, cur
        else:
            raise RuntimeError('unknown header kind ' + kind)
        if client is not None and not client.get('sha'):
            client = None
        return H, client

    def cond(self, kind, v):
        H, client = self.headers_for(kind, v)
        return self.request(H, kind, client)

    # -- blocks --
    def execute(self, ops):
        run = self.run
        for op in ops:
            if self.failed:
                break
            if op[0] == 'get':
                self.request({}, 'get')
            elif op[0] == 'cond':
                self.cond(op[1], op[2])
            elif op[0] == 'rewrite':
                self.rewrite(op[1])
            elif op[0] == 'fault':
                self.fault_block(op[1])
        run.hit('histories')
        run.hit('histories_' + self.svc)
        run.count('generations', len(self.refs))
        if self.case.get('i', 99) < 3 and not run.replaying:
            run.sample({'spec': self.spec, 'url': self.url, 'ops': ops[:12], 'log_tail': self.log[-6:]})

    def remove_api(self, coords):
        from mapproxy.cache.tile import Tile
        for c in coords:
            self.tm.cache.remove_tile(Tile(c))

    def rewrite(self, o):
        run = self.run
        if not self.rec.stored:
            self.request({}, 'get')
        prev = self.read_meta()
        via = o['via']
        if via == 'neighbour' and not self.neigh:
            via = 'api'
        self.blocks += 1
        self.last_rewrite = '%s/%s/%s' % (via, 'get' if o['by'] == 'get' else 'cond', o['touch'])
        self.note('REWRITE %r (stored meta before: %r)' % (o, prev))
        if o['epoch']:
            self.state['epoch'] += 1
        g0 = self.rec.gen
        marker = os.path.join(self.d, 'expiry-marker')
        if via == 'expire':
            # nothing is removed: the refresh rule declares every stored tile stale for the next request, which re-creates
            # the tile through the tile manager while the old one (and its metadata) is still there
            os.utime(marker, (MARKER_FUTURE, MARKER_FUTURE))
            self.expire_window = marker
            run.hit('rewrites_by_expiry')
        elif via == 'api':
            self.remove_api([self.T])
        elif via == 'raw':
            self.raw_remove()
        else:
            n = self.neigh[o['v'] % len(self.neigh)]
            self.remove_api([n])
            self.request({}, 'get', url=self.url_for(*n))
        if via != 'neighbour':
            try:
                if o['by'] == 'get':
                    self.request({}, 'get')
                else:
                    self.cond(o['by'], o['v'])
            finally:
                if via == 'expire':
                    os.utime(marker, (MARKER_ANCIENT, MARKER_ANCIENT))
                    self.expire_window = None
        if self.failed:
            return
        if not self.rec.stored or self.rec.gen == g0:
            run.count('rewrite_did_not_store')
            return
        run.hit('rewrites')
        run.hit('rewrites_' + ('neighbour' if via == 'neighbour' else 'direct'))
        if o['touch'] != 'natural' and prev is not None:
            self.set_ts(o['touch'], prev, o['dt'])
            run.hit('timestamps_forced')

    def fault_block(self, o):
        run = self.run
        up = self.up
        mode = o['mode']
        self.blocks += 1
        self.last_rewrite = 'fault/%s/%s' % (mode, o['remove'])
        self.note('FAULT %r' % (o,))
        self.remove_api(self.block if (o['remove'] == 'block' and self.meta) else [self.T])
        T = self.T

        def f_all(call):
            return upstream.Resp(b'internal error', 'text/plain', 500)

        def f_target(call):
            try:
                z, x, y = parse_tile_path(call.path)
            except Exception:
                return None
            if (x, y, z) == T:
                return upstream.Resp(b'internal error', 'text/plain', 500)
            return None
        f = f_all if mode == 'all' else f_target
        up.faults['c20wms'] = f
        up.faults['c20tiles'] = f
        self.fault = mode
        try:
            self.request({}, 'get')
            for kind, v in o['conds']:
                if self.failed:
                    break
                self.cond(kind, v)
            if not self.failed:
                self.request({}, 'get')
        finally:
            up.faults.clear()
            self.fault = None
        if not self.failed:
            self.note('FAULT cleared')
            self.request({}, 'get')
            self.request({}, 'get')


if __name__ == '__main__':
    core.main(sys.modules[__name__])
