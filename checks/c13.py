"""C13 - expiry rules decide precisely which tiles are refreshed.

Histories over REAL configurations (real loader, real TileManager, real TMS/WMS services, real mapproxy.seed) against
the NOISE upstream whose picture changes with an epoch counter that the harness bumps before every request:

  serving : cache option `refresh_before` (time: iso string | YAML timestamp, mtime: file, relative age) on file /
            per-level sqlite caches, single-tile and meta-tile creation (2x2, 3x2, +-buffer, bulk_meta_tiles for tile
            sources, minimize_meta_requests), WMS and tile sources.  Operations: request tiles (TMS, WMS GetMap,
            TileManager.load_tile_coords), set tile timestamps to threshold+delta (os.utime / SQL UPDATE), change the
            threshold (tm._refresh_before / re-utime of the mtime file), make the upstream fail (HTTP 500/404, html body,
            non-image body labelled image/png) and recover.
  seeding : seed.yaml `refresh_before` executed by mapproxy.seed.seeder.seed() (concurrency 1, worker body run on a
            thread so that the upstream log stays in this process), +-skip_uncached, +-coverage, levels list/range, an
            optional failing upstream (one stale meta tile), then a second seed run after recovery.

Time is never waited for: tile timestamps and thresholds are set explicitly, relative ages use margins of hours.
The oracle reads timestamps and tile bytes with its own os.stat / SELECT and decodes the served / stored epoch by
comparing the pixels with the NOISE function.
"""
import contextlib
import datetime
import hashlib
import io
import math
import os
import queue
import re
import shutil
import sqlite3
import sys
import threading
import time
import traceback
import zoneinfo

import numpy as np

from vlib import core, upstream, scenario

PID = 'C13'
LEVEL = 'exploration'
BUDGET_S = {'quick': 40, 'thorough': 600}
FLOORS = {'quick': {'histories': 530, 'serve_histories': 390, 'seed_histories': 135, 'seed_tasks': 310, 'stale_refetched': 2800,
                    'fresh_served_from_cache': 9300, 'failed_refresh_kept_old': 920, 'refreshed_after_recovery': 340,
                    'boundary_dont_care': 1450, 'threshold_changes': 620, 'seed_stale_refetched': 1240,
                    'seed_fresh_untouched': 6900, 'seed_failed_refresh_kept_old': 95, 'stale_served_on_error': 55,
                    'linked_histories': 18, 'linked_tile_judgements': 170, 'cache_source_histories': 20, 'two_source_histories': 20,
                    'stored_timestamp_of_new_tile_checked': 2000, 'seed_tiles_where_cache_rule_says_otherwise': 400, 'dimension_histories': 25},
          'thorough': {'histories': 8500, 'serve_histories': 6500, 'seed_histories': 1900, 'seed_tasks': 4500,
                       'stale_refetched': 45000, 'fresh_served_from_cache': 137000, 'failed_refresh_kept_old': 15800,
                       'refreshed_after_recovery': 6000, 'boundary_dont_care': 22000, 'threshold_changes': 10700,
                       'seed_stale_refetched': 17600, 'seed_fresh_untouched': 96000, 'seed_failed_refresh_kept_old': 1400,
                       'stale_served_on_error': 850, 'linked_histories': 300, 'linked_tile_judgements': 2800,
                       'cache_source_histories': 400, 'stored_timestamp_of_new_tile_checked': 30000}}
RULE = ("case = one history on one generated configuration (backend file tc/tms/mp | sqlite; meta 1x1, 2x2, 3x2, +-buffer, "
        "bulk meta tiles, minimize_meta_requests; source wms | tile; rule kind time string / YAML timestamp / mtime file / "
        "relative age; time zone). serving history = fill, then 3-6 rounds of {stamp tiles at threshold+delta, delta in "
        "-3600,-1,0,+0.4,+1,+3600 | change rule | upstream fails / recovers | request via TMS, WMS or load_tile_coords}; "
        "seed history = fill, stamp, run real seed() with refresh_before (+-skip_uncached, +-coverage, +-failing upstream, "
        "second run). evaluations = per requested / per seeded tile judgements (stale => refetched once and new epoch; "
        "fresh => no upstream call and old epoch; failed refresh => old bytes kept). distinct = (backend, meta shape, rule "
        "kind, delta class, serving|seed, source kind, tile state); non-trivial = the tile was cached and its timestamp was "
        "set explicitly relative to the threshold (not merely 'written just now')")
ASSUMPTIONS = [
    "stale = timestamp <= threshold, fresh = timestamp >= threshold + 1 s; the open interval between is don't-care "
    "(one-second granularity of thresholds and of the sqlite timestamp column)",
    "relative ages: threshold = wall clock - age, read by the harness around the request; tiles within 1800 s of it are "
    "don't-care; ages are >= 6 h so that tiles written during the history are unambiguously fresh; when a DST change lies "
    "between now and now - age, both readings of the age (elapsed seconds / same local clock time) bound the don't-care band",
    "a failed refresh is not a write: the tile keeps the state (timestamp, content) it had before the failed attempt",
    "a fresh tile may be refetched when its meta tile (aligned block; with minimize_meta_requests: the bounding rectangle "
    "of the non-fresh requested tiles) holds a stale, missing or don't-care tile; then both epochs are accepted",
    "with a failing upstream (HTTP 500, HTTP 404, 200 text/html, 200 image/png whose body is no image) a request may fail "
    "or serve the old tile; nothing else is accepted, and afterwards every tile that was in the cache is byte-identical",
    "seed tasks: only meta tiles overlapping the coverage by at least half a tile are judged (the rest is C11's subject); "
    "creation of missing tiles is C11's subject and only counted",
    "seed worker body (TileSeedWorker.work_loop) runs on a thread instead of a forked process; exp_backoff sleeps are "
    "replaced by zero-length sleeps with at most 3 retries",
    "dimensions and caches without timestamps are outside the quantifier; on_error handlers appear in the two-sources family only; linked single-colour tiles "
    "(link_single_color_images true / hardlink) have their own small family: flat upstream whose colour is the epoch, "
    "timestamps set on the links themselves (never followed) and on the shared colour files",
    "time zone set per case via TZ/tzset, thresholds chosen away from DST changes",
]

DELTAS = [-3600, -1, 0, 0.4, 1, 3600]
AGE_MARGIN = 1800.0
TZS = ['UTC', 'Europe/Berlin', 'Asia/Kolkata', 'America/New_York', 'Pacific/Auckland']
AGES = [{'hours': 6}, {'days': 2, 'hours': 3}, {'weeks': 1}, {'minutes': 600}, {'seconds': 90000},
        {'days': 1, 'minutes': 30, 'seconds': 15}]
AGE_UNIT = {'weeks': 604800, 'days': 86400, 'hours': 3600, 'minutes': 60, 'seconds': 1}


# =====================================================================================================================
# independent grid model
# =====================================================================================================================

class GI(object):
    def __init__(self, g, meta, minimize=False):
        self.bbox = tuple(g['bbox'])
        self.res = list(g['res'])
        self.tw, self.th = g['tile_size']
        self.meta = tuple(meta)
        self.minimize = minimize

    def size(self, z):
        r = self.res[z]
        return (int(round((self.bbox[2] - self.bbox[0]) / (r * self.tw))),
                int(round((self.bbox[3] - self.bbox[1]) / (r * self.th))))

    def rect(self, c):
        x, y, z = c
        r = self.res[z]
        x0 = self.bbox[0] + x * r * self.tw
        y0 = self.bbox[1] + y * r * self.th
        return (x0, y0, x0 + r * self.tw, y0 + r * self.th)

    def bdims(self, z):
        nx, ny = self.size(z)
        return min(self.meta[0], nx), min(self.meta[1], ny)

    def block(self, c):
        mx, my = self.bdims(c[2])
        return (c[0] // mx, c[1] // my, c[2])

    def block_tiles(self, b):
        bx, by, z = b
        mx, my = self.bdims(z)
        nx, ny = self.size(z)
        return [(x, y, z) for y in range(by * my, min(ny, by * my + my)) for x in range(bx * mx, min(nx, bx * mx + mx))]

    def blocks(self, z):
        nx, ny = self.size(z)
        mx, my = self.bdims(z)
        return [(bx, by, z) for by in range((ny + my - 1) // my) for bx in range((nx + mx - 1) // mx)]

    def block_rect(self, b):
        ts = self.block_tiles(b)
        rs = [self.rect(t) for t in ts]
        return (min(r[0] for r in rs), min(r[1] for r in rs), max(r[2] for r in rs), max(r[3] for r in rs))

    def covered(self, bbox, z):
        """tiles of level z whose rectangle lies inside bbox (1% of a pixel tolerance)"""
        r = self.res[z]
        sx, sy = r * self.tw, r * self.th
        nx, ny = self.size(z)
        eps = 0.01 / self.tw
        x_lo = int(math.ceil((bbox[0] - self.bbox[0]) / sx - eps))
        x_hi = int(math.floor((bbox[2] - self.bbox[0]) / sx + eps)) - 1
        y_lo = int(math.ceil((bbox[1] - self.bbox[1]) / sy - eps))
        y_hi = int(math.floor((bbox[3] - self.bbox[1]) / sy + eps)) - 1
        return set((x, y, z) for x in range(max(0, x_lo), min(nx - 1, x_hi) + 1)
                   for y in range(max(0, y_lo), min(ny - 1, y_hi) + 1))


# =====================================================================================================================
# time helpers (zoneinfo; independent of time.localtime / mktime used by the code)
# =====================================================================================================================

def local_dt(ts, tz):
    return datetime.datetime.fromtimestamp(int(math.floor(ts)), zoneinfo.ZoneInfo(tz)).replace(tzinfo=None)


def local_str(ts, tz, sep=' '):
    return local_dt(ts, tz).strftime('%Y-%m-%d' + sep + '%H:%M:%S')


def parse_local(s, tz):
    d = datetime.datetime.strptime(s, '%Y-%m-%d %H:%M:%S').replace(tzinfo=zoneinfo.ZoneInfo(tz))
    return d.timestamp()


def stable_offset(T, tz):
    z = zoneinfo.ZoneInfo(tz)
    offs = set()
    for dt in (-200000, -90000, -4000, 0, 4000, 90000, 200000):
        offs.add(datetime.datetime.fromtimestamp(T + dt, z).utcoffset())
    return len(offs) == 1


def age_seconds(units):
    return sum(AGE_UNIT[k] * v for k, v in units.items())


# =====================================================================================================================
# generation
# =====================================================================================================================

META_SHAPES = {
    '1x1': ([1, 1], 0), '2x2': ([2, 2], 0), '2x2b': ([2, 2], 6), '3x2': ([3, 2], 0), '3x2b': ([3, 2], 5),
    '1x3b': ([1, 3], 9),
}


def gen_rule(rng, allow_dt=True, allow_future=True):
    k = rng.choice(['time_str', 'time_str', 'time_dt', 'mtime', 'mtime', 'age', 'age'])
    if k == 'time_dt' and not allow_dt:
        k = 'time_str'
    if k == 'age':
        return {'kind': 'age', 'units': dict(rng.choice(AGES))}
    offs = [0, 7200, -7200, 3 * 86400, -3 * 86400, 17 * 3600 + 59]
    if allow_future:
        offs += [60 * 86400, 60 * 86400]
    r = {'kind': k, 'off': rng.choice(offs)}
    if k == 'mtime':
        r['frac_ns'] = rng.choice([0, 0, 500000000, 999000000])
        r['rel'] = rng.random() < 0.4
    return r


def gen_spec(rng, mode):
    tw, th = rng.choice([(32, 32), (32, 32), (48, 32), (32, 40)])
    nx0, ny0 = rng.choice([(1, 1), (2, 1), (3, 2), (2, 2), (3, 1), (1, 2)])
    r0 = rng.choice([64.0, 100.0, 152.5])
    srs = rng.choice(['EPSG:25832', 'EPSG:3857'])
    x0, y0 = (400000.0, 5600000.0) if srs == 'EPSG:25832' else (1000000.0, 6000000.0)
    x0 += rng.choice([0.0, 1234.5])
    grid = {'srs': srs, 'bbox': [x0, y0, x0 + nx0 * tw * r0, y0 + ny0 * th * r0], 'tile_size': [tw, th],
            'res': [r0, r0 / 2, r0 / 4], 'origin': 'll'}
    src = rng.choice(['wms', 'wms', 'wms', 'tile'])
    if src == 'wms':
        shape = rng.choice(['1x1', '2x2', '2x2', '2x2b', '3x2', '3x2b', '1x3b'])
        meta, buf = META_SHAPES[shape]
        bulk = False
        minimize = shape != '1x1' and rng.random() < 0.2
    else:
        shape = rng.choice(['1x1', '1x1', 'bulk2x2', 'bulk3x2'])
        meta, buf = {'1x1': ([1, 1], 0), 'bulk2x2': ([2, 2], 0), 'bulk3x2': ([3, 2], 0)}[shape]
        bulk = shape != '1x1'
        minimize = False
    backend = rng.choice(['file_tc', 'file_tc', 'file_tms', 'file_mp', 'sqlite', 'sqlite', 'sqlite'])
    spec = {'grid': grid, 'src': src, 'shape': shape + ('m' if minimize else ''), 'meta': meta, 'buffer': buf, 'bulk': bulk,
            'minimize': minimize, 'backend': backend, 'creators': rng.choice([1, 1, 2, 3]),
            'tz': rng.choice(TZS), 'rule': gen_rule(rng, allow_future=(mode == 'serve')), 'mode': mode}
    if mode == 'seed':
        spec['skip_uncached'] = rng.random() < 0.5
        spec['levels'] = rng.choice([[1], [2], [1, 2], {'from': 1, 'to': 2}, [0, 2], {'from': 2}, [0, 1, 2]])
        spec['coverage'] = rng.random() < 0.4
        spec['cache_rule'] = None
        if rng.random() < 0.25:
            spec['cache_rule'] = gen_rule(rng, allow_future=False)
        spec['seed_fail'] = rng.random() < 0.3
        spec['fill'] = rng.choice([1.0, 1.0, 0.8, 0.6])
        spec['mixed'] = rng.random() < 0.25
        if spec['seed_fail']:
            # exactly one stale meta tile: the single worker dies on it and nothing else is queued behind it
            spec['fill'] = 1.0
            spec['cache_rule'] = None
            spec['mixed'] = False
    return spec


def seed_levels(lv, n):
    if isinstance(lv, list):
        return sorted(set(z for z in lv if 0 <= z < n))
    lo = lv.get('from')
    hi = lv.get('to')
    return list(range(0 if lo is None else lo, (n - 1 if hi is None else min(hi, n - 1)) + 1))


def gen_serve_ops(rng, spec):
    gi = GI(spec['grid'], spec['meta'])
    z = rng.choice([2, 2, 2, 1, 1, 0])
    blocks = gi.blocks(z)
    b0 = rng.choice(blocks)
    chosen = [b0]
    for b in blocks:
        if b != b0 and abs(b[0] - b0[0]) + abs(b[1] - b0[1]) == 1 and len(chosen) < 3:
            chosen.append(b)
    U = [t for b in chosen for t in gi.block_tiles(b)]
    if len(U) > 14:
        U = U[:14]
    ops = []

    def pick_req(fill=False):
        via = rng.choice(['tms', 'tms', 'coords', 'coords', 'coords', 'wms'])
        if fill:
            via = rng.choice(['coords', 'coords', 'wms'])
        if via == 'tms':
            return {'op': 'req', 'via': 'tms', 'tiles': [list(rng.choice(U))]}
        if via == 'coords':
            if fill:
                k = len(U) if rng.random() < 0.7 else max(1, len(U) - rng.randint(1, 3))
            else:
                k = rng.choice([1, 1, 2, 3, 4, len(U)])
            ts = rng.sample(U, min(k, len(U)))
            return {'op': 'req', 'via': 'coords', 'tiles': [list(t) for t in ts]}
        # wms: rectangle of tiles inside the bounding rectangle of U
        xs = sorted(set(t[0] for t in U))
        ys = sorted(set(t[1] for t in U))
        if fill:
            xa, xb, ya, yb = xs[0], xs[-1], ys[0], ys[-1]
        else:
            xa = rng.choice(xs)
            xb = min(xs[-1], xa + rng.choice([0, 1, 2]))
            ya = rng.choice(ys)
            yb = min(ys[-1], ya + rng.choice([0, 1]))
        return {'op': 'req', 'via': 'wms', 'tiles': [[x, y, z] for y in range(ya, yb + 1) for x in range(xa, xb + 1)]}

    ops.append(pick_req(fill=True))
    for _ in range(rng.randint(3, 6)):
        pat = rng.choice(['uniform', 'block', 'block', 'mixed', 'mixed', 'none'])
        if pat != 'none':
            if pat == 'uniform':
                d = rng.choice(DELTAS)
                assign = [[t[0], t[1], t[2], d] for t in U]
            elif pat == 'block':
                bd = {}
                assign = []
                for t in U:
                    b = gi.block(t)
                    if b not in bd:
                        bd[b] = rng.choice(DELTAS)
                    assign.append([t[0], t[1], t[2], bd[b]])
            else:
                base = rng.choice([3600, 3600, 1, -3600])
                assign = [[t[0], t[1], t[2], base] for t in U]
                for a in rng.sample(assign, rng.randint(1, max(1, len(U) // 3))):
                    a[3] = rng.choice(DELTAS)
            stamp = {'op': 'stamp', 'assign': assign}
        else:
            stamp = None
        rule = {'op': 'rule', 'rule': gen_rule(rng, allow_dt=True)} if rng.random() < 0.35 else None
        seq = [o for o in (stamp, rule) if o]
        if rng.random() < 0.5:
            seq.reverse()
        ops.extend(seq)
        fail = rng.random() < 0.3
        rq = pick_req()
        if fail:
            ops.append({'op': 'fail', 'how': rng.choice(['http500', 'html200', 'http404', 'garbage_png'])})
            ops.append(rq)
            ops.append({'op': 'recover'})
            ops.append(dict(rq) if rng.random() < 0.8 else pick_req())
        else:
            ops.append(rq)
            if rng.random() < 0.3:
                ops.append(pick_req())
    return ops


def gen_seed_ops(rng, spec):
    gi = GI(spec['grid'], spec['meta'])
    levels = seed_levels(spec['levels'], 3)
    assign = []      # [x, y, z, delta | None (leave as written now) | 'missing']
    stale_blocks = 0
    allb = [b for z in levels for b in gi.blocks(z)]
    only_stale = rng.choice(allb) if spec['seed_fail'] else None
    for b in allb:
        tiles = gi.block_tiles(b)
        if spec['seed_fail']:
            d = rng.choice([-3600, -1, 0]) if b == only_stale else rng.choice([1, 3600, 3600, None])
            if spec['rule']['kind'] == 'age':
                d = -3600 if b == only_stale else rng.choice([3600, None])
            if b != only_stale and rng.random() > spec['fill']:
                d = 'missing'
        else:
            d = rng.choice(DELTAS + [None, -3600, 3600])
            if rng.random() > spec['fill']:
                d = 'missing'
        per = [[t[0], t[1], t[2], d] for t in tiles]
        if spec['mixed'] and len(tiles) > 1 and rng.random() < 0.5 and d != 'missing' and not spec['seed_fail']:
            for a in rng.sample(per, rng.randint(1, len(per) - 1)):
                a[3] = rng.choice(DELTAS + ['missing'])
        assign.extend(per)
    cov = None
    if spec['coverage']:
        # edges in the middle of level-2 tiles: every block overlaps by >= half a tile or is >= half a tile away
        nx, ny = gi.size(2)
        r = gi.res[2]
        xa = rng.randint(0, max(0, nx - 2))
        xb = rng.randint(xa + 1, nx - 1) if nx > 1 else 0
        ya = rng.randint(0, max(0, ny - 2))
        yb = rng.randint(ya + 1, ny - 1) if ny > 1 else 0
        cov = [gi.bbox[0] + (xa + 0.5) * gi.tw * r, gi.bbox[1] + (ya + 0.5) * gi.th * r,
               gi.bbox[0] + (xb + 0.5) * gi.tw * r, gi.bbox[1] + (yb + 0.5) * gi.th * r]
    return {'assign': assign, 'coverage_bbox': cov, 'second_run': True}


# =====================================================================================================================
# world: scenario + raw access to the backend + rule handling
# =====================================================================================================================

class World(object):
    def __init__(self, run, spec, d, seed_conf=None):
        self.spec = spec
        self.d = d
        self.tz = spec['tz']
        self.gi = GI(spec['grid'], spec['meta'], spec['minimize'])
        now = int(time.time())
        T0 = now - 30 * 86400
        while not stable_offset(T0, self.tz):
            T0 -= 3 * 86400
        self.T0 = T0
        self.marker = os.path.join(d, 'marker.dat')
        with open(self.marker, 'w') as f:
            f.write('x')
        conf = scenario.base_conf()
        conf['grids']['g'] = dict(spec['grid'])
        if spec['src'] == 'wms':
            conf['sources']['src'] = {'type': 'wms', 'req': {'url': 'http://noise/service?', 'layers': 'a'},
                                      'supported_srs': [spec['grid']['srs']]}
        else:
            conf['sources']['src'] = {'type': 'tile', 'url': 'http://ntiles/t/%(z)s/%(x)s/%(y)s.png', 'grid': 'g'}
        cache = {'grids': ['g'], 'sources': ['src'], 'format': 'image/png', 'request_format': 'image/png',
                 'meta_size': list(spec['meta']), 'meta_buffer': spec['buffer'],
                 'concurrent_tile_creators': spec['creators']}
        if spec['minimize']:
            cache['minimize_meta_requests'] = True
        if spec['bulk']:
            cache['bulk_meta_tiles'] = True
        if spec['backend'] == 'sqlite':
            cache['cache'] = {'type': 'sqlite'}
        else:
            cache['cache'] = {'type': 'file', 'directory_layout': spec['backend'].split('_')[1]}
        self.rule = None
        rule0 = spec['rule'] if spec['mode'] == 'serve' else spec.get('cache_rule')
        if rule0:
            cache['refresh_before'] = self.rule_conf(rule0)
        conf['caches']['c'] = cache
        conf['layers'] = [{'name': 'l', 'title': 'l', 'sources': ['c']}]
        conf['services'] = {'tms': {}, 'wms': {'srs': [spec['grid']['srs']], 'image_formats': ['image/png'],
                                               'md': {'title': 't'}}}
        self.sc = scenario.Scenario(d, conf, seed_conf=seed_conf)
        self.tm = self.sc.tile_manager('c')
        grid = self.sc.grid('g')
        self.lat = upstream.Lattice.from_grid(grid)
        self.state = {'epoch': 0}
        self.up = upstream.install()
        self.up.faults.clear()
        self.up.register('noise', upstream.NoiseWMS(self.lat, [spec['grid']['srs']], self.state))
        self.up.register('ntiles', upstream.NoiseTiles(self.lat, [grid.grid_sizes[z] for z in range(grid.levels)],
                                                       self.state))
        self.host = 'noise' if spec['src'] == 'wms' else 'ntiles'
        m = re.search(r'href="http://localhost(/tms/1\.0\.0/[^"]+)"', self.sc.get('/tms/1.0.0/').body.decode('utf-8', 'replace'))
        self.tms_path = m.group(1)
        # sanity of the independent grid model against the loaded grid (harness error if it disagrees)
        for z in range(3):
            if tuple(grid.grid_sizes[z]) != self.gi.size(z):
                raise RuntimeError('grid model disagrees with loaded grid: %r vs %r' % (grid.grid_sizes[z], self.gi.size(z)))
        self.epochs = [0]

    # ---- rules ------------------------------------------------------------------------------------------------------
    def abs_thr(self, rule):
        T = self.T0 + rule['off']
        while not stable_offset(T, self.tz):
            T += 3 * 86400
        return T

    def rule_conf(self, rule):
        """configuration dict for the rule; sets the mtime file if needed; remembers the rule as the one in force"""
        self.rule = rule
        k = rule['kind']
        if k == 'age':
            return dict(rule['units'])
        T = self.abs_thr(rule)
        if k == 'time_str':
            return {'time': local_str(T, self.tz, 'T')}
        if k == 'time_dt':
            return {'time': local_dt(T, self.tz)}
        ns = T * 1000000000 + rule.get('frac_ns', 0)
        os.utime(self.marker, ns=(ns, ns))
        return {'mtime': './marker.dat' if rule.get('rel') else self.marker}

    def threshold(self, rule=None):
        """(thr_lo, thr_hi): the threshold lies in this interval"""
        rule = rule or self.rule
        if rule['kind'] == 'age':
            # elapsed-time reading and wall-clock reading (same local clock time N days ago) differ across a DST change
            now = time.time()
            t = now - age_seconds(rule['units'])
            z = zoneinfo.ZoneInfo(self.tz)
            wall = datetime.datetime.fromtimestamp(now, z).replace(tzinfo=None) - datetime.timedelta(seconds=age_seconds(rule['units']))
            alt = wall.replace(tzinfo=z).timestamp()
            return (min(t, alt) - AGE_MARGIN, max(t, alt) + AGE_MARGIN)
        T = self.abs_thr(rule) + (rule.get('frac_ns', 0) / 1e9 if rule['kind'] == 'mtime' else 0.0)
        return (T, T)

    def classify(self, ts, rule=None):
        lo, hi = self.threshold(rule)
        if ts <= lo:
            return 'stale'
        if ts >= hi + 1.0:
            return 'fresh'
        return 'band'

    def stamp_time(self, delta):
        rule = self.rule
        if rule['kind'] == 'age':
            return time.time() - age_seconds(rule['units']) + delta
        return self.abs_thr(rule) + (rule.get('frac_ns', 0) / 1e9 if rule['kind'] == 'mtime' else 0.0) + delta

    # ---- raw backend access -----------------------------------------------------------------------------------------
    def _file(self, c):
        from mapproxy.cache.tile import Tile
        return self.tm.cache.tile_location(Tile(tuple(c)))

    def _db(self, z):
        return os.path.join(self.tm.cache.cache_dir, '%s.mbtile' % z)

    def raw(self, c):
        """(bytes, timestamp) or None - own reader"""
        c = tuple(c)
        if self.spec['backend'] == 'sqlite':
            p = self._db(c[2])
            if not os.path.exists(p):
                return None
            con = sqlite3.connect(p, timeout=20)
            try:
                row = con.execute("SELECT tile_data, last_modified FROM tiles WHERE tile_column=? AND tile_row=? AND zoom_level=?",
                                  c).fetchone()
            finally:
                con.close()
            if row is None:
                return None
            return bytes(row[0]), parse_local(row[1], self.tz)
        p = self._file(c)
        try:
            st = os.stat(p)
            with open(p, 'rb') as f:
                data = f.read()
        except FileNotFoundError:
            return None
        return data, st.st_mtime_ns / 1e9

    def same_ts(self, stored, written):
        if self.spec['backend'] == 'sqlite':
            return abs(stored - math.floor(written)) < 1e-3
        return abs(stored - written) < 1e-3

    def set_ts(self, c, ts):
        c = tuple(c)
        if self.spec['backend'] == 'sqlite':
            con = sqlite3.connect(self._db(c[2]), timeout=20)
            try:
                con.execute("UPDATE tiles SET last_modified=? WHERE tile_column=? AND tile_row=? AND zoom_level=?",
                            (local_str(ts, self.tz),) + c)
                con.commit()
            finally:
                con.close()
            return float(math.floor(ts))
        ns = int(round(ts * 1e9))
        os.utime(self._file(c), ns=(ns, ns))
        return ns / 1e9

    # ---- content ----------------------------------------------------------------------------------------------------
    def decode(self, c, img, prefer=()):
        """epoch whose NOISE picture the tile image shows, or None"""
        c = tuple(c)
        arr = np.asarray(img.convert('RGB'))
        h, w = arr.shape[:2]
        if (w, h) != (self.gi.tw, self.gi.th):
            return None
        gx, gy = self.lat.cells(c[2], self.gi.rect(c), (w, h))
        cands = list(prefer) + [e for e in reversed(self.epochs) if e not in prefer]
        for e in cands:
            if e is None:
                continue
            exp = upstream.noise_rgb(c[2], gx, gy, e)
            if (arr == exp).all(axis=2).mean() > 0.98:
                return e
        return None

    def decode_bytes(self, c, data, prefer=()):
        try:
            return self.decode(c, upstream.decode(data), prefer)
        except Exception:
            return None

    # ---- upstream calls -> covered tiles ----------------------------------------------------------------------------
    def call_cover(self, call):
        """tiles whose rectangle the upstream request covers (parsed here: faulted calls never reach the renderer)"""
        if call.kind == 'getmap':
            try:
                q = call.extra.get('q') or upstream.parse_getmap(call)
            except Exception:
                return set()
            res = (q['bbox'][2] - q['bbox'][0]) / q['size'][0]
            z = min(range(3), key=lambda k: abs(math.log(res / self.gi.res[k])))
            return self.gi.covered(q['bbox'], z)
        t = call.extra.get('tile')
        if not t:
            m = re.search(r'/(\d+)/(\d+)/(\d+)\.png$', call.path)
            if not m:
                return set()
            t = (int(m.group(2)), int(m.group(3)), int(m.group(1)))
        return set([tuple(t)])


@contextlib.contextmanager
def timezone(tz):
    old = os.environ.get('TZ')
    os.environ['TZ'] = tz
    time.tzset()
    try:
        yield
    finally:
        if old is None:
            os.environ.pop('TZ', None)
        else:
            os.environ['TZ'] = old
        time.tzset()


_BASE_THREADS = [None]


def quiesce():
    """wait until helper threads of the code under test (creator pools whose request already failed) have finished;
    not a verdict by time: a history that does not become quiet is abandoned as don't-care"""
    if _BASE_THREADS[0] is None:
        _BASE_THREADS[0] = threading.active_count()
        return True
    for _ in range(3000):
        if threading.active_count() <= _BASE_THREADS[0]:
            return True
        time.sleep(0.001)
    return False


def fault_fn(how):
    def f(call):
        call.extra['faulted'] = True
        if how == 'http500':
            return upstream.Resp(b'internal error', 'text/plain', 500)
        if how == 'http404':
            return upstream.Resp(b'not here', 'text/plain', 404)
        if how == 'garbage_png':
            return upstream.Resp(b'\x89PNG\r\n\x1a\n this is no image', 'image/png', 200)
        return upstream.Resp(b'<html><body>maintenance</body></html>', 'text/html', 200)
    return f


def delta_class(d):
    if d is None:
        return 'written_now'
    return {-3600: '-3600', -1: '-1', 0: '0', 0.4: '+0.4', 1: '+1', 3600: '+3600'}.get(d, str(d))


# =====================================================================================================================
# serving histories
# =====================================================================================================================

class Judge(object):
    def __init__(self, run, case, spec, ops, world):
        self.run, self.case, self.spec, self.ops, self.w = run, case, spec, ops, world
        self.failed = False
        self.trace = []

    def mech(self, **kw):
        s = self.spec
        m = {'mode': s['mode'], 'backend': s['backend'].split('_')[0], 'meta': s['shape'], 'src': s['src'],
             'rule': self.w.rule['kind'] if self.w.rule else None}
        if s['mode'] == 'seed' and s.get('cache_rule'):
            m['cache_has_own_rule'] = True
        m.update(kw)
        return m

    def bad(self, detail, fatal=True, **kw):
        if fatal:
            self.failed = True
        self.run.violation(self.mech(**kw), dict(self.case, spec=self.spec, ops=self.ops),
                           '%s | config: backend=%s meta=%s buffer=%s src=%s tz=%s rule=%r | history so far: %s' % (
                               detail, self.spec['backend'], self.spec['shape'], self.spec['buffer'], self.spec['src'],
                               self.spec['tz'], self.w.rule, ' ; '.join(self.trace[-8:])))

    def cls(self, dclass, state):
        s = self.spec
        return (s['backend'], s['shape'], self.w.rule['kind'], dclass, s['mode'], s['src'], state)


def request(w, op):
    """executes one request op. returns (images {coord: PIL image} | None, error string | None)"""
    from mapproxy.config import local_base_config
    tiles = [tuple(t) for t in op['tiles']]
    via = op['via']
    try:
        if via == 'tms':
            x, y, z = tiles[0]
            r = w.sc.get('%s/%d/%d/%d.png' % (w.tms_path, z, x, y))
            if r.code != 200 or not r.content_type.startswith('image/'):
                return None, 'HTTP %d %s %r' % (r.code, r.content_type, r.body[:160])
            return {tiles[0]: r.image()}, None
        if via == 'wms':
            gi = w.gi
            rects = [gi.rect(t) for t in tiles]
            bbox = (min(r[0] for r in rects), min(r[1] for r in rects), max(r[2] for r in rects), max(r[3] for r in rects))
            xs = sorted(set(t[0] for t in tiles))
            ys = sorted(set(t[1] for t in tiles))
            W, H = len(xs) * gi.tw, len(ys) * gi.th
            r = w.sc.get('/service?SERVICE=WMS&VERSION=1.1.1&REQUEST=GetMap&LAYERS=l&STYLES=&SRS=%s&BBOX=%s&WIDTH=%d&HEIGHT=%d'
                         '&FORMAT=image/png&EXCEPTIONS=application/vnd.ogc.se_xml' % (
                             w.spec['grid']['srs'], ','.join(repr(v) for v in bbox), W, H))
            if r.code != 200 or not r.content_type.startswith('image/'):
                return None, 'HTTP %d %s %r' % (r.code, r.content_type, r.body[:160])
            img = r.image().convert('RGB')
            out = {}
            for t in tiles:
                col = t[0] - xs[0]
                row = ys[-1] - t[1]
                out[t] = img.crop((col * gi.tw, row * gi.th, (col + 1) * gi.tw, (row + 1) * gi.th))
            return out, None
        with local_base_config(w.sc.conf.base_config):
            with w.tm.session():
                tc = w.tm.load_tile_coords(list(tiles))
                out = {}
                for t in tiles:
                    src = tc[t].source
                    if src is None:
                        return None, 'load_tile_coords returned no image for %r' % (t,)
                    out[t] = src.as_image().copy()
        return out, None
    except Exception as ex:
        try:
            w.tm.cleanup()
        except Exception:
            pass
        return None, 'exception %s: %s' % (type(ex).__name__, str(ex)[:200])


def run_serve(run, case, spec, ops, d):
    quiesce()
    w = World(run, spec, d)
    J = Judge(run, case, spec, ops, w)
    gi = w.gi
    model = {}     # coord -> {'ts', 'epoch', 'd' (delta class), 'hash'}
    failing = None
    pending_recover = set()    # stale tiles whose refresh failed: the next healthy request must refresh them
    for idx, op in enumerate(ops):
        if J.failed:
            return
        kind = op['op']
        if kind == 'rule':
            conf = w.rule_conf(op['rule'])
            w.tm._refresh_before = conf
            J.trace.append('rule %r' % (op['rule'],))
            run.hit('threshold_changes')
            continue
        if kind == 'stamp':
            n = 0
            for x, y, z, dl in op['assign']:
                c = (x, y, z)
                if c not in model:
                    continue
                want = w.stamp_time(dl)
                got = w.set_ts(c, want)
                back = w.raw(c)
                if back is None or abs(back[1] - got) > 1e-3 or hashlib.sha1(back[0]).hexdigest() != model[c]['hash']:
                    raise RuntimeError('stamping %r failed: wanted %r wrote %r read back %r' % (c, want, got, back and back[1]))
                model[c]['ts'] = want      # the time of the (simulated) write; sqlite stores its floor
                model[c]['d'] = delta_class(dl)
                pending_recover.discard(c)
                n += 1
            J.trace.append('stamp %s' % ','.join('%r:%s' % ((a[0], a[1], a[2]), delta_class(a[3])) for a in op['assign'][:8]))
            run.count('stamps', n)
            continue
        if kind == 'fail':
            failing = op['how']
            w.up.faults[w.host] = fault_fn(failing)
            J.trace.append('upstream fails (%s)' % failing)
            continue
        if kind == 'recover':
            failing = None
            w.up.faults.pop(w.host, None)
            J.trace.append('upstream recovers')
            continue
        # ---- request ------------------------------------------------------------------------------------------------
        tiles = [tuple(t) for t in op['tiles']]
        epoch = idx + 1
        w.state['epoch'] = epoch
        w.epochs.append(epoch)
        # pre-state of every tile of every touched block
        universe = set()
        for t in tiles:
            universe.update(gi.block_tiles(gi.block(t)))
        thr_before = w.threshold()
        pre = {}
        for t in universe:
            if t in model:
                pre[t] = w.classify(model[t]['ts'])
            else:
                pre[t] = 'missing'
        pre_raw = {t: w.raw(t) for t in universe}
        for t in universe:
            if (pre_raw[t] is None) != (t not in model):
                raise RuntimeError('model and cache disagree about presence of %r before step %d' % (t, idx))
        n0 = w.up.n
        w.up.reset_log()
        t_req0 = time.time()
        imgs, err = request(w, op)
        t_req1 = time.time()
        if not quiesce():
            run.dc('helper_threads_still_running_after_request')
            return
        calls = list(w.up.log)
        ok_calls = [c for c in calls if not c.extra.get('faulted')]
        cover = {}
        for c in calls:
            for t in w.call_cover(c):
                cover.setdefault(t, []).append(c)
        J.trace.append('epoch %d %s %r -> %s, %d upstream calls' % (epoch, op['via'], tiles[:6], err or 'ok', len(calls)))
        run.count('requests')
        run.count('upstream_calls', len(calls))
        nonfresh_req = [t for t in tiles if pre[t] != 'fresh']

        def permitted(t):
            if any(pre[u] != 'fresh' for u in gi.block_tiles(gi.block(t))):
                return True
            if spec['minimize'] and nonfresh_req:
                xs = [u[0] for u in nonfresh_req]
                ys = [u[1] for u in nonfresh_req]
                return min(xs) <= t[0] <= max(xs) and min(ys) <= t[1] <= max(ys)
            return False

        if failing:
            # ---- failing upstream ---------------------------------------------------------------------------------
            for t in tiles:
                st = pre[t]
                dcl = model[t]['d'] if t in model else 'missing'
                if st == 'fresh' and not permitted(t) and imgs is not None:
                    # untouched by the failure: must be served from the cache without any call
                    run.judge(J.cls(dcl, 'fresh_during_failure'), nontrivial=dcl != 'written_now')
                    e = w.decode(t, imgs[t], prefer=(model[t]['epoch'],))
                    if cover.get(t):
                        J.bad('fresh tile %r (timestamp %.3f, threshold %r): upstream contacted %d times although no tile of its '
                              'meta tile is stale or missing' % (t, model[t]['ts'], thr_before, len(cover[t])),
                              clause='fresh_refetched', upstream='failing')
                        return
                    if e != model[t]['epoch'] and op['via'] != 'wms':
                        J.bad('fresh tile %r served with epoch %r, cache holds epoch %r' % (t, e, model[t]['epoch']),
                              clause='fresh_wrong_content', upstream='failing')
                        return
                    run.hit('fresh_served_from_cache')
                if st == 'stale' and imgs is not None:
                    e = w.decode(t, imgs[t], prefer=(model[t]['epoch'],))
                    if e != model[t]['epoch'] and not (op['via'] == 'wms' and e is None):
                        J.bad('upstream fails (%s); stale tile %r answered with content of epoch %r, the cache held epoch %r' % (
                            failing, t, e, model[t]['epoch']), clause='failed_refresh_wrong_content', how=failing)
                        return
                    run.hit('stale_served_on_error')
            if imgs is None:
                run.count('failed_requests_on_error')
            # the old tiles are still there, byte-identical, through a raw read and through a fresh cache object
            for t in sorted(universe):
                if pre_raw[t] is None:
                    continue
                now_raw = w.raw(t)
                was_target = pre[t] == 'stale' and (t in tiles or any(pre[u] == 'stale' and u in tiles
                                                                      for u in gi.block_tiles(gi.block(t))))
                dcl = model[t]['d']
                run.judge(J.cls(dcl, 'kept_after_failed_refresh'), nontrivial=was_target)
                if now_raw is None or now_raw[0] != pre_raw[t][0]:
                    J.bad('upstream fails (%s) while refreshing; tile %r (state %s) %s afterwards (request result: %s)' % (
                        failing, t, pre[t], 'is gone' if now_raw is None else 'has different bytes (%d -> %d bytes, decodes to epoch %r)' % (
                            len(pre_raw[t][0]), len(now_raw[0]), w.decode_bytes(t, now_raw[0])), err or 'ok'),
                        clause='failed_refresh_destroyed_old', how=failing)
                    return
                if was_target:
                    run.hit('failed_refresh_kept_old')
                    if abs(now_raw[1] - pre_raw[t][1]) > 1e-3:
                        run.count('failed_refresh_changed_timestamp')
                    if t in tiles:
                        pending_recover.add(t)
            # something stored for a tile that was missing (an undecodable body labelled image/png is stored unchecked):
            # no old tile was involved, so this is not C13's subject; the cache now holds a tile without a content epoch
            # and the history cannot be judged any further
            if any(pre_raw[t] is None and w.raw(t) is not None for t in universe):
                run.dc('failing_upstream_stored_something_for_a_missing_tile')
                run.hit('histories')
                run.hit('serve_histories')
                return
            continue
        # ---- healthy upstream ---------------------------------------------------------------------------------------
        if imgs is None:
            J.bad('request %s %r failed with a healthy upstream: %s' % (op['via'], tiles[:6], err), clause='request_failed',
                  via=op['via'])
            return
        for t in tiles:
            st = pre[t]
            dcl = model[t]['d'] if t in model else 'missing'
            ncall = len([c for c in cover.get(t, []) if c in ok_calls])
            prefer = (epoch,) + ((model[t]['epoch'],) if t in model else ())
            e = w.decode(t, imgs[t], prefer=prefer)
            if e is None and op['via'] == 'wms':
                run.dc('wms_response_not_decodable')
                continue
            if st == 'missing':
                run.count('missing_tiles_created')
                continue
            if st == 'band':
                run.dc('boundary_dont_care' if w.rule['kind'] != 'age' else 'relative_age_within_clock_margin')
                run.hit('boundary_dont_care')
                continue
            if st == 'stale':
                run.judge(J.cls(dcl, 'stale'), nontrivial=dcl != 'written_now')
                if ncall == 0 or e != epoch:
                    J.bad('stale tile %r (timestamp %.3f <= threshold %r, delta class %s) was not refreshed: %d upstream calls '
                          'cover it, response shows epoch %r, current epoch %d, cache held epoch %r' % (
                              t, model[t]['ts'], thr_before, dcl, ncall, e, epoch, model[t]['epoch']),
                          clause='stale_not_refetched', delta=dcl, via=op['via'], after_failed_refresh=t in pending_recover)
                    return
                if ncall != 1:
                    J.bad('stale tile %r was fetched %d times for one request' % (t, ncall), clause='refetched_more_than_once',
                          via=op['via'])
                    return
                run.hit('stale_refetched')
                if t in pending_recover:
                    run.hit('refreshed_after_recovery')
                    pending_recover.discard(t)
                continue
            # fresh
            run.judge(J.cls(dcl, 'fresh'), nontrivial=dcl != 'written_now')
            if not permitted(t):
                if ncall or cover.get(t):
                    J.bad('fresh tile %r (timestamp %.3f >= threshold %r + 1 s, delta class %s): upstream contacted (%d calls cover it) '
                          'although no tile of its meta tile is stale or missing; states of its meta tile: %r' % (
                              t, model[t]['ts'], thr_before, dcl, len(cover.get(t, [])),
                              {u: pre[u] for u in gi.block_tiles(gi.block(t))}),
                          clause='fresh_refetched', delta=dcl, via=op['via'])
                    return
                if e != model[t]['epoch']:
                    J.bad('fresh tile %r served with epoch %r but the cache holds epoch %r (no upstream call)' % (
                        t, e, model[t]['epoch']), clause='fresh_wrong_content', delta=dcl, via=op['via'])
                    return
                run.hit('fresh_served_from_cache')
            else:
                if e not in (model[t]['epoch'], epoch) or (e == epoch and not ncall):
                    J.bad('fresh tile %r in a meta tile with non-fresh tiles served with epoch %r (cache %r, current %r, %d calls)' % (
                        t, e, model[t]['epoch'], epoch, ncall), clause='fresh_wrong_content', delta=dcl, via=op['via'])
                    return
                run.count('fresh_in_refetched_meta_tile')
        # any upstream call at all must be explained by a non-fresh requested tile or a permitted neighbourhood
        for t, cs in cover.items():
            if t in pre and pre[t] == 'fresh' and not permitted(t) and t not in tiles:
                J.bad('tile %r is fresh and so is its whole meta tile, it was not even requested, but %d upstream calls cover it' % (
                    t, len(cs)), clause='fresh_refetched', via=op['via'], requested=False)
                return
        # ---- sync the model with what is in the cache now for every tile an upstream call covered -------------------
        for t in set(cover) | set(tiles):
            rw = w.raw(t)
            if rw is None:
                if t in model:
                    J.bad('tile %r vanished from the cache during a healthy request' % (t,), clause='tile_vanished')
                    return
                continue
            h = hashlib.sha1(rw[0]).hexdigest()
            if t in model and h == model[t]['hash'] and w.same_ts(rw[1], model[t]['ts']):
                continue
            e = w.decode_bytes(t, rw[0], prefer=(epoch,))
            if t in cover and e != epoch and t in tiles and pre.get(t) in ('stale', 'missing'):
                J.bad('tile %r was refetched (epoch %d) but the cache holds epoch %r afterwards' % (t, epoch, e),
                      clause='refetched_not_stored')
                return
            # a tile written by this request was written NOW: its stored timestamp is the time of this request (sqlite keeps
            # whole seconds), whatever timestamps the objects involved carried before
            run.hit('stored_timestamp_of_new_tile_checked')
            if not (t_req0 - 2.0 <= rw[1] <= t_req1 + 2.0):
                J.bad('tile %r was (re)written by this request (between %.3f and %.3f) but is stored with timestamp %.3f (%+.1f s)' % (
                    t, t_req0, t_req1, rw[1], rw[1] - t_req1), clause='stored_timestamp_is_not_the_time_of_writing', via=op['via'])
                return
            model[t] = {'ts': rw[1], 'epoch': e, 'd': 'written_now', 'hash': h}
            pending_recover.discard(t)
    if not J.failed:
        run.hit('histories')
        run.hit('serve_histories')
        if case['i'] % 97 < 2:
            run.sample({'mode': 'serve', 'config': {k: spec[k] for k in ('backend', 'shape', 'buffer', 'src', 'tz', 'rule', 'creators')},
                        'history': J.trace[:14], 'observed': 'every stale tile refetched once with the new epoch, every fresh tile '
                        'served from the cache without upstream call, failed refreshes left the old bytes'})


# =====================================================================================================================
# seed histories
# =====================================================================================================================

_SEED_PATCHED = False


def patch_seeder():
    """worker body on a thread (the upstream log must stay in this process); zero-length backoff sleeps"""
    global _SEED_PATCHED
    if _SEED_PATCHED:
        return
    from mapproxy.seed import seeder
    real_backoff = seeder.exp_backoff

    class ThreadSeedWorker(threading.Thread):
        def __init__(self, task, tiles_queue, conf):
            threading.Thread.__init__(self)
            self.daemon = True
            self.task = task
            self.tile_mgr = task.tile_manager
            self.tiles_queue = tiles_queue
            self.conf = conf
        run = seeder.TileWorker.run
        work_loop = seeder.TileSeedWorker.work_loop

    def fast_backoff(func, args=(), kw={}, max_repeat=10, start_backoff_sec=2, exceptions=(Exception,),
                     ignore_exceptions=tuple(), max_backoff=60):
        return real_backoff(func, args=args, kw=kw, max_repeat=3, start_backoff_sec=0, exceptions=exceptions,
                            ignore_exceptions=ignore_exceptions, max_backoff=0)
    class FastQueue(queue.Queue):
        # TileWorkerPool.process polls with put(timeout=5) to notice dead workers; poll faster, same semantics
        def put(self, item, block=True, timeout=None):
            if timeout is not None:
                timeout = min(timeout, 0.1)
            return queue.Queue.put(self, item, block, timeout)

    seeder.TileSeedWorker = ThreadSeedWorker
    seeder.queue_class = FastQueue
    seeder.exp_backoff = fast_backoff
    _SEED_PATCHED = True


def do_seed(w, skip_uncached):
    from mapproxy.seed import seeder
    from mapproxy.seed.config import load_seed_tasks_conf
    from mapproxy.config import local_base_config
    sink = io.StringIO()
    exc = None
    with local_base_config(w.sc.conf.base_config):
        with contextlib.redirect_stdout(sink), contextlib.redirect_stderr(sink):
            try:
                sconf = load_seed_tasks_conf(w.sc.seed_path, w.sc.conf)
                # every seed of the file in one run, like `mapproxy-seed` without --seed: each task has its own rule
                tasks = sconf.seeds(None)
                seeder.seed(tasks, concurrency=1, dry_run=False, skip_uncached=skip_uncached)
            except BaseException as ex:      # SeedInterrupted etc.
                if isinstance(ex, (KeyboardInterrupt, SystemExit)):
                    raise
                exc = ex
    try:
        w.tm.cleanup()
    except Exception:
        pass
    return exc


def run_seed(run, case, spec, sops, d):
    patch_seeder()
    gi = GI(spec['grid'], spec['meta'])
    seedconf = {'seeds': {'s': {'caches': ['c'], 'grids': ['g'], 'levels': spec['levels']}}}
    if sops['coverage_bbox']:
        seedconf['coverages'] = {'cov': {'bbox': list(sops['coverage_bbox']), 'srs': spec['grid']['srs']}}
        seedconf['seeds']['s']['coverages'] = ['cov']
    seedconf['seeds']['s']['refresh_before'] = {'hours': 1}     # placeholder, rewritten below (needs the world's T0)
    if case['i'] % 2 == 1:
        # a second seed on the same cache and grid with another rule (nothing is old enough for it) and a small coverage
        # of its own: thresholds belong to tasks, not to the cache the tasks share
        gb = spec['grid']['bbox']
        seedconf.setdefault('coverages', {})['cov_other'] = {
            'bbox': [gb[0], gb[1], gb[0] + (gb[2] - gb[0]) * 0.02, gb[1] + (gb[3] - gb[1]) * 0.02], 'srs': spec['grid']['srs']}
        seedconf['seeds']['zz_other'] = {'caches': ['c'], 'grids': ['g'], 'levels': spec['levels'], 'coverages': ['cov_other'],
                                         'refresh_before': {'time': '2000-01-01T00:00:00'}}
        run.count('seed_runs_with_a_second_seed_on_the_same_cache')
    w = World(run, spec, d, seed_conf=seedconf)
    J = Judge(run, case, spec, sops, w)
    cache_rule = spec.get('cache_rule')
    seed_rule = spec['rule']
    import yaml
    seedconf['seeds']['s']['refresh_before'] = w.rule_conf(seed_rule)
    with open(w.sc.seed_path, 'w') as f:
        yaml.safe_dump(seedconf, f, default_flow_style=False)
    if cache_rule and cache_rule['kind'] == 'mtime' and seed_rule['kind'] == 'mtime':
        run.dc('two_mtime_rules_share_the_marker_file')
        return
    levels = seed_levels(spec['levels'], 3)
    from mapproxy.config import local_base_config
    # ---- fill (epoch 1) ---------------------------------------------------------------------------------------------
    w.state['epoch'] = 1
    w.epochs.append(1)
    w.rule = cache_rule       # while filling, the cache's own rule (if any) is the one in force
    want = [(a[0], a[1], a[2]) for a in sops['assign'] if a[3] != 'missing']
    saved = w.tm._refresh_before
    w.tm._refresh_before = {}
    with local_base_config(w.sc.conf.base_config):
        with w.tm.session():
            for z in sorted(set(c[2] for c in want)):       # one level per call, as every caller in mapproxy does
                lv = [c for c in want if c[2] == z]
                for i in range(0, len(lv), 24):
                    w.tm.load_tile_coords(lv[i:i + 24])
    w.tm._refresh_before = saved
    # tiles created as by-catch of meta tiles but meant to be missing: remove them raw
    for a in sops['assign']:
        if a[3] == 'missing':
            c = (a[0], a[1], a[2])
            if w.raw(c) is not None:
                if spec['backend'] == 'sqlite':
                    con = sqlite3.connect(w._db(c[2]), timeout=20)
                    con.execute("DELETE FROM tiles WHERE tile_column=? AND tile_row=? AND zoom_level=?", c)
                    con.commit()
                    con.close()
                else:
                    os.unlink(w._file(c))
    # ---- stamp relative to the seed rule ----------------------------------------------------------------------------
    w.rule = seed_rule
    model = {}
    for x, y, z, dl in sops['assign']:
        c = (x, y, z)
        if dl == 'missing':
            continue
        rw = w.raw(c)
        if rw is None:
            raise RuntimeError('fill did not create %r' % (c,))
        ts = rw[1]
        if dl is not None:
            ts = w.stamp_time(dl)           # the time of the (simulated) write; sqlite stores its floor
            w.set_ts(c, ts)
        model[c] = {'ts': ts, 'd': delta_class(dl), 'bytes': rw[0]}
    # independent reading of what the seed task must do
    cov = sops['coverage_bbox']

    def block_in_task(b):
        if b[2] not in levels:
            return False
        if cov is None:
            return True
        r = gi.block_rect(b)
        return min(r[2], cov[2]) - max(r[0], cov[0]) > 0 and min(r[3], cov[3]) - max(r[1], cov[1]) > 0

    def state_of(c, rule):
        if c not in model:
            return 'missing'
        return w.classify(model[c]['ts'], rule)

    rounds = [('failing', spec['seed_fail'])] if spec['seed_fail'] else []
    rounds.append(('healthy', False))
    if sops.get('second_run'):
        rounds.append(('again', False))
    epoch = 1
    for rname, fail in rounds:
        if J.failed:
            return
        epoch += 1
        w.state['epoch'] = epoch
        w.epochs.append(epoch)
        if fail:
            w.up.faults[w.host] = fault_fn('http500')
        else:
            w.up.faults.pop(w.host, None)
        # the seed rule's threshold is computed when the task is built: bracket it
        pre = {}
        for c in model:
            # the rule of the seed task is the one in force while it runs, whatever the cache is served with
            s_seed = state_of(c, seed_rule)
            pre[c] = s_seed
            if cache_rule and state_of(c, cache_rule) != s_seed:
                run.hit('seed_tiles_where_cache_rule_says_otherwise')
        w.up.reset_log()
        exc = do_seed(w, spec['skip_uncached'])
        if not quiesce():
            run.dc('helper_threads_still_running_after_request')
            return
        w.up.faults.pop(w.host, None)
        calls = list(w.up.log)
        cover = {}
        for c in calls:
            if c.extra.get('faulted'):
                continue
            for t in w.call_cover(c):
                cover.setdefault(t, []).append(c)
        attempted = set()
        for c in calls:
            attempted.update(w.call_cover(c))
        J.trace.append('seed run %s (skip_uncached=%s levels=%r coverage=%r rule=%r cache_rule=%r): %d upstream calls, exception %r' % (
            rname, spec['skip_uncached'], spec['levels'], cov, seed_rule, cache_rule, len(calls), exc))
        run.hit('seed_tasks')
        run.count('upstream_calls', len(calls))
        if exc is not None and not fail:
            J.bad('seed() raised %r with a healthy upstream' % (exc,), clause='seed_raised')
            return
        for z in levels:
            for b in gi.blocks(z):
                tiles = gi.block_tiles(b)
                if not block_in_task(b):
                    run.count('seed_blocks_outside_coverage')
                    continue
                states = {t: pre.get(t, 'missing') for t in tiles}
                corner = states[tiles[0]]
                allfresh = all(s == 'fresh' for s in states.values())
                mixed = len(set(states.values())) > 1
                for t in tiles:
                    st = states[t]
                    now_raw = w.raw(t)
                    if st == 'missing':
                        if now_raw is not None:
                            run.count('seed_created_missing')
                            model[t] = {'ts': now_raw[1], 'd': 'written_now', 'bytes': now_raw[0]}
                        continue
                    dcl = model[t]['d']
                    if st in ('band', 'disagree'):
                        if st == 'band':
                            run.dc('boundary_dont_care' if seed_rule['kind'] != 'age' else 'relative_age_within_clock_margin')
                            run.hit('boundary_dont_care')
                        else:
                            run.dc('seed_and_cache_rule_disagree')
                            run.count('disagree_refreshed' if t in cover else 'disagree_kept')
                    elif fail:
                        # nothing may be destroyed, whatever the state
                        run.judge(J.cls(dcl, 'seed_failed_refresh'), nontrivial=(st == 'stale'))
                        if now_raw is None or now_raw[0] != model[t]['bytes']:
                            J.bad('seed with failing upstream: tile %r (state %s) %s afterwards' % (
                                t, st, 'is gone' if now_raw is None else 'has different bytes'),
                                clause='failed_refresh_destroyed_old', how='http500')
                            return
                        if st == 'stale' and t in attempted:
                            run.hit('failed_refresh_kept_old')
                            run.hit('seed_failed_refresh_kept_old')
                        continue
                    elif st == 'stale':
                        run.judge(J.cls(dcl, 'seed_stale'), nontrivial=True)
                        n = len(cover.get(t, []))
                        e = w.decode_bytes(t, now_raw[0], prefer=(epoch,)) if now_raw else None
                        if n == 0 or e != epoch:
                            J.bad('seed task (refresh_before %r => threshold %r, skip_uncached=%s) left stale tile %r (timestamp %.3f, '
                                  'delta class %s) unrefreshed: %d upstream calls cover it, cache holds epoch %r, current epoch %d; '
                                  'states of its meta tile %r' % (
                                      seed_rule, w.threshold(seed_rule), spec['skip_uncached'], t, model[t]['ts'], dcl, n, e, epoch,
                                      states),
                                  clause='seed_stale_not_refreshed', mixed_meta_tile=mixed, first_tile_state=corner,
                                  skip_uncached=spec['skip_uncached'], delta=dcl if not mixed else 'mixed',
                                  fatal=not (mixed and corner != 'stale'))
                            if J.failed:
                                return
                            # a meta tile whose first tile is not stale is skipped by the seeder as a whole: reported once
                            # per tile, the history goes on
                            run.count('seed_stale_left_in_mixed_meta_tile')
                            continue
                        if n != 1:
                            J.bad('seed task fetched stale tile %r %d times' % (t, n), clause='refetched_more_than_once')
                            return
                        run.hit('stale_refetched')
                        run.hit('seed_stale_refetched')
                    elif st == 'fresh':
                        run.judge(J.cls(dcl, 'seed_fresh'), nontrivial=dcl != 'written_now')
                        if allfresh:
                            if t in attempted or now_raw is None or now_raw[0] != model[t]['bytes']:
                                J.bad('seed task (threshold %r) touched fresh tile %r (timestamp %.3f, delta class %s) of an all-fresh '
                                      'meta tile: %d upstream calls cover it, bytes %s' % (
                                          w.threshold(seed_rule), t, model[t]['ts'], dcl, len(cover.get(t, [])),
                                          'changed' if now_raw and now_raw[0] != model[t]['bytes'] else 'unchanged'),
                                      clause='fresh_refetched', delta=dcl)
                                return
                            run.hit('fresh_served_from_cache')
                            run.hit('seed_fresh_untouched')
                        else:
                            run.count('fresh_in_refetched_meta_tile')
                    # sync
                    if now_raw is not None and (now_raw[0] != model[t]['bytes'] or not w.same_ts(now_raw[1], model[t]['ts'])):
                        if fail:
                            continue
                        model[t] = {'ts': now_raw[1], 'd': 'written_now', 'bytes': now_raw[0]}
    if not J.failed:
        run.hit('histories')
        run.hit('seed_histories')
        if case['i'] % 97 < 4:
            run.sample({'mode': 'seed', 'config': {k: spec[k] for k in ('backend', 'shape', 'buffer', 'src', 'tz', 'rule', 'levels',
                                                                         'skip_uncached', 'coverage', 'seed_fail', 'cache_rule')},
                        'tiles': len(sops['assign']), 'history': J.trace[:4],
                        'observed': 'stale tiles of the task refetched once, all-fresh meta tiles untouched'})


# =====================================================================================================================
# driver
# =====================================================================================================================

def setup_shard(run):
    upstream.install()
    _BASE_THREADS[0] = threading.active_count()


def gen_cases(run):
    n = run.pick(1400, 26000)
    # directed: the open known finding about hard-linked single-colour tiles is reproduced in every run
    yield {'i': 2000001, 'mode': 'linked', 'force': {'link': 'hardlink', 'layout': 'tc', 'meta': [1, 1], 'via': 'tms', 'second_epoch': 0}}
    for i in range(n):
        if i % 20 == 7:
            yield {'i': i, 'mode': 'linked'}
        if i % 20 == 13:
            yield {'i': i, 'mode': 'cache_source'}
        if i % 20 == 17:
            yield {'i': i, 'mode': 'two_sources'}
        if i % 20 == 3:
            yield {'i': i, 'mode': 'dims'}
        yield {'i': i, 'mode': 'seed' if i % 4 == 3 else 'serve'}


# ---------------------------------------------------------------------------------------------------------------------
# linked single-colour tiles (file cache, link_single_color_images): the tile is a link to a shared colour file that is
# written once; the time the TILE was written is the time of the link. Own small family: flat upstream whose colour is
# the epoch, explicit timestamps on links (never followed) and on the shared files.
# ---------------------------------------------------------------------------------------------------------------------

LINK_COLOURS = [(10, 200, 30), (200, 40, 40), (30, 60, 220), (240, 240, 20)]


def run_two_sources(run, case, d):
    """a cache built from two sources, the upper one with `on_error: {500: {response: transparent, cache: false}}`. While
    that upstream fails, a stale tile is answered with what can be had, but the complete old tile stays in the cache; once
    the upstream is back the tile is refreshed."""
    from mapproxy.cache.tile import Tile
    rng = run.rng('twosrc', case['i'])
    backend = rng.choice(['file', 'sqlite'])
    meta = rng.choice([[1, 1], [2, 2]])
    via = rng.choice(['tiles', 'tm'])
    state = {'epoch': 0, 'fail_top': False}
    up = upstream.install()
    up.faults.clear()
    up.reset_log()

    def mk(which):
        def handler(call):
            if which == 'top' and state['fail_top']:
                return upstream.Resp(b'broken', 'text/plain', 500)
            try:
                size = (int(call.params.get('width', 64)), int(call.params.get('height', 64)))
            except ValueError:
                size = (64, 64)
            size = (max(1, min(size[0], 1024)), max(1, min(size[1], 1024)))
            from PIL import Image
            e = state['epoch']
            if which == 'base':
                im = Image.new('RGBA', size, (30 + 40 * e, 90, 200, 255))
            else:
                im = Image.new('RGBA', size, (0, 0, 0, 0))
                im.paste((230, 200 - 50 * e, 20, 255), (size[0] // 2, 0, size[0], size[1]))
            im.putpixel((1, 1), (7, 7, 7, 255))
            b = io.BytesIO()
            im.save(b, 'PNG')
            return upstream.Resp(b.getvalue(), 'image/png')
        return handler
    up.register('tbase', mk('base'))
    up.register('ttop', mk('top'))
    now = int(time.time())
    T0 = now - 30 * 86400
    conf = scenario.base_conf()
    conf['grids']['g'] = {'srs': 'EPSG:3857', 'bbox': [-20037508.342789244, -20037508.342789244, 20037508.342789244, 20037508.342789244],
                          'tile_size': [64, 64], 'num_levels': 4, 'origin': 'll'}
    conf['sources']['base'] = {'type': 'wms', 'req': {'url': 'http://tbase/service?', 'layers': 'a'}, 'supported_srs': ['EPSG:3857']}
    conf['sources']['top'] = {'type': 'wms', 'req': {'url': 'http://ttop/service?', 'layers': 'a', 'transparent': True},
                              'supported_srs': ['EPSG:3857'],
                              'on_error': {500: {'response': 'transparent', 'cache': False}}}
    conf['caches']['c'] = {'grids': ['g'], 'sources': ['base', 'top'], 'format': 'image/png', 'request_format': 'image/png',
                           'meta_size': meta, 'meta_buffer': 0,
                           'cache': {'type': 'sqlite'} if backend == 'sqlite' else {'type': 'file', 'directory_layout': 'tc'},
                           'refresh_before': {'time': time.strftime('%Y-%m-%dT%H:%M:%S', time.localtime(T0))}}
    conf['layers'] = [{'name': 'l', 'title': 'l', 'sources': ['c']}]
    conf['services'] = {'tms': {}}
    sc = scenario.Scenario(d, conf)
    tm = sc.tile_manager('c')
    A = (rng.randrange(4), rng.randrange(4), 2)
    hist = []
    mech0 = {'mode': 'two_sources', 'backend': backend, 'meta': '%dx%d' % tuple(meta), 'via': via}

    def stored():
        t = Tile(A)
        tm.cache.load_tile(t)
        if t.source is None:
            return None
        return hashlib.sha1(t.source.as_buffer().read()).hexdigest()

    def stamp_old():
        ts = T0 - 3600
        if backend == 'sqlite':
            for z in range(4):
                p_ = os.path.join(tm.cache.cache_dir, '%d.mbtile' % z)
                if os.path.exists(p_):
                    con = sqlite3.connect(p_, timeout=20)
                    try:
                        con.execute('UPDATE tiles SET last_modified=?', (time.strftime('%Y-%m-%d %H:%M:%S', time.localtime(ts)),))
                        con.commit()
                    finally:
                        con.close()
        else:
            for rt, _, fs in os.walk(tm.cache.cache_dir):
                for f in fs:
                    os.utime(os.path.join(rt, f), (ts, ts))

    def ask(label):
        n0 = len(up.log)
        if via == 'tiles':
            r = sc.get('/tiles/l/EPSG3857/%d/%d/%d.png' % (A[2], A[0], A[1]))
            ok = r.code == 200
        else:
            with tm.session():
                t = tm.load_tile_coord(A, with_metadata=True)
            ok = t.source is not None
        calls = [c.host for c in up.log[n0:]]
        hist.append('%s -> %s, upstream calls %r, stored tile %s' % (label, 'ok' if ok else 'FAILED', calls, (stored() or 'none')[:10]))
        return ok, calls

    def bad(clause, detail, **kw):
        run.violation(dict(mech0, clause=clause, **kw), case, 'cache of two sources, upper one with on_error 500 -> transparent, cache: false '
                      '(%s, meta %r, via %s): %s | threshold %d | history: %s' % (backend, meta, via, detail, T0, ' ; '.join(hist)))
    ok, calls = ask('fill (both upstreams healthy)')
    full = stored()
    if not ok or full is None:
        run.dc('two_sources_fill_failed')
        return
    stamp_old()
    hist.append('everything in the cache stamped threshold-3600')
    state['fail_top'] = True
    state['epoch'] = 1
    ok, calls = ask('stale tile needed while the upper upstream answers 500')
    run.judge(('two_sources', backend, tuple(meta), via, 'failed_refresh'), nontrivial=True)
    run.hit('failed_refresh_kept_old')
    run.hit('two_source_failed_refreshes')
    after = stored()
    if after != full:
        bad('failed_refresh_destroyed_old', 'the refresh failed (upper upstream 500, on_error says cache: false) but the old complete tile '
            'was replaced in the cache (%s -> %s)' % (full[:10], (after or 'none')[:10]), how='on_error_uncacheable_layer')
        return
    state['fail_top'] = False
    ok, calls = ask('stale tile needed after the upstream recovered')
    run.judge(('two_sources', backend, tuple(meta), via, 'recovered'), nontrivial=True)
    run.hit('refreshed_after_recovery')
    if not calls or stored() == full:
        bad('stale_served', 'after the upstream recovered the stale tile was not refreshed (upstream calls %r)' % (calls,))
        return
    run.hit('two_source_histories')


DIM_COLOURS = {'2020': (200, 30, 30), '2021': (30, 200, 30), '2022-06-01T00:00:00Z': (30, 30, 200)}


def run_dims(run, case, d):
    """a layer with a dimension on a file cache with a refresh rule: the address of a tile includes the dimension value, and so
    does its age. A tile written now is served from the cache (no upstream request) for its value; made old, it is fetched
    again exactly once, while the tile of the other value stays as it is."""
    import io as _io
    from PIL import Image
    from mapproxy.cache.tile import Tile
    rng = run.rng('dims', case['i'])
    via = rng.choice(['tm', 'wmts', 'wmts'])
    meta = rng.choice([[1, 1], [2, 2]])
    layout = rng.choice(['tc', 'tms', 'arcgis'])
    tz = rng.choice(['UTC', 'Europe/Berlin', 'Asia/Kolkata'])
    up = upstream.install()
    up.faults.clear()
    up.reset_log()
    state = {'epoch': 0}

    def pic(call):
        try:
            w, h = int(call.params.get('width', 64)), int(call.params.get('height', 64))
        except ValueError:
            w, h = 64, 64
        col = DIM_COLOURS.get(call.params.get('time'), (0, 0, 0))
        b = _io.BytesIO()
        im = Image.new('RGB', (max(1, min(w, 1024)), max(1, min(h, 1024))), col)
        im.putpixel((1, 1), (1, 2, 3 + state['epoch']))
        for ty in range(0, im.size[1], 64):
            for tx in range(0, im.size[0], 64):
                im.putpixel((tx + 2, ty + 2), (9, 9, 40 * state['epoch']))       # epoch mark in every tile
        im.save(b, 'PNG')
        return upstream.Resp(b.getvalue(), 'image/png')
    up.register('flat', pic)
    with timezone(tz):
        now = int(time.time())
        T0 = now - 30 * 86400
        while not stable_offset(T0, tz):
            T0 -= 3 * 86400
        vals = sorted(DIM_COLOURS)
        conf = scenario.base_conf()
        conf['grids']['g'] = {'srs': 'EPSG:3857', 'bbox': [-20037508.342789244, -20037508.342789244, 20037508.342789244, 20037508.342789244],
                              'tile_size': [64, 64], 'num_levels': 4, 'origin': 'ul'}
        conf['sources']['src'] = {'type': 'wms', 'req': {'url': 'http://flat/service?', 'layers': 'a'}, 'supported_srs': ['EPSG:3857'],
                                  'forward_req_params': ['time']}
        conf['caches']['c'] = {'grids': ['g'], 'sources': ['src'], 'format': 'image/png', 'request_format': 'image/png',
                               'meta_size': meta, 'meta_buffer': 0, 'cache': {'type': 'file', 'directory_layout': layout},
                               'refresh_before': {'time': local_str(T0, tz, 'T')}}
        conf['layers'] = [{'name': 'l', 'title': 'l', 'sources': ['c'],
                           'dimensions': {'time': {'values': vals, 'default': vals[0]}}}]
        conf['services'] = {'wmts': {}, 'tms': {}}
        sc = scenario.Scenario(d, conf)
        tm = sc.tile_manager('c')
        A = (rng.randrange(4), rng.randrange(4), 2)
        va, vb = rng.sample(vals, 2)
        hist = []
        mech0 = {'mode': 'dimensions', 'via': via, 'meta': '%dx%d' % tuple(meta)}

        def ask(v, label):
            n0 = len(up.log)
            img = None
            err = None
            try:
                if via == 'tm':
                    from mapproxy.config import local_base_config
                    with local_base_config(sc.conf.base_config):
                        with tm.session():
                            t = tm.load_tile_coord(A, dimensions={'time': v}, with_metadata=True)
                    img = t.source.as_image().convert('RGB') if t.source is not None else None
                else:
                    r = sc.get('/service?SERVICE=WMTS&VERSION=1.0.0&REQUEST=GetTile&LAYER=l&STYLE=default&TILEMATRIXSET=g&TILEMATRIX=%d'
                               '&TILEROW=%d&TILECOL=%d&FORMAT=image/png&TIME=%s' % (A[2], A[1], A[0], v))
                    if r.code == 200 and r.content_type.startswith('image/'):
                        img = r.image().convert('RGB')
                    else:
                        err = 'HTTP %s %s %r' % (r.code, r.content_type, r.body[:120])
            except Exception as ex:
                err = repr(ex)
            calls = len(up.log) - n0
            ep = img.getpixel((2, 2))[2] // 40 if img is not None else None
            col = img.getpixel((30, 30)) if img is not None else None
            hist.append('%s time=%s -> %s, %d upstream calls, colour %r, epoch mark %r' % (label, v, err or 'ok', calls, col, ep))
            return err, calls, col, ep

        def bad(clause, detail, **kw):
            run.violation(dict(mech0, clause=clause, **kw), case, 'dimension layer with refresh_before (%s, meta %r, layout %s): %s | '
                          'threshold %d | history: %s' % (via, meta, layout, detail, T0, ' ; '.join(hist)))

        def judge(v, label, want_calls, want_epoch, clause):
            err, calls, col, ep = ask(v, label)
            run.judge(('dims', via, tuple(meta), clause), nontrivial=True)
            if err:
                bad('no_image', '%s: %s' % (label, err))
                return False
            if col != DIM_COLOURS[v]:
                bad('wrong_dimension_value_served', '%s: colour %r, the picture of time=%s is %r' % (label, col, v, DIM_COLOURS[v]))
                return False
            if calls != want_calls or ep != want_epoch:
                bad(clause, '%s: %d upstream calls (expected %d), epoch mark %r (expected %r)' % (label, calls, want_calls, ep, want_epoch))
                return False
            return True
        if not judge(va, 'first request', 1, 0, 'missing_not_fetched_once'):
            return
        if not judge(va, 'same tile again (written a moment ago)', 0, 0, 'fresh_refetched'):
            return
        run.hit('fresh_served_from_cache')
        if not judge(vb, 'other value, first request', 1, 0, 'missing_not_fetched_once'):
            return
        if not judge(vb, 'other value again', 0, 0, 'fresh_refetched'):
            return
        run.hit('fresh_served_from_cache')
        # the tile of value va becomes older than the threshold (every tile of its meta tile, as a real clock would do)
        loc = tm.cache.tile_location(Tile(A), dimensions={'time': va})
        if not os.path.exists(loc):
            bad('tile_not_stored_under_its_dimension', 'no file at %s' % loc)
            return
        root = loc
        for _ in range(64):
            root = os.path.dirname(root)
            if os.path.basename(root).startswith('time-'):
                break
        nold = 0
        for r_, _, fs_ in os.walk(root):
            for f_ in fs_:
                os.utime(os.path.join(r_, f_), (T0 - 3600, T0 - 3600))
                nold += 1
        hist.append('%d tiles of time=%s stamped threshold-3600' % (nold, va))
        state['epoch'] = 1
        if not judge(va, 'expired tile of the first value', 1, 1, 'stale_not_refetched_once'):
            return
        run.hit('stale_refetched')
        if not judge(vb, 'tile of the other value (still fresh)', 0, 0, 'fresh_refetched'):
            return
        run.hit('fresh_served_from_cache')
        if not judge(va, 'refreshed tile again', 0, 1, 'fresh_refetched'):
            return
        run.hit('fresh_served_from_cache')
        run.hit('dimension_histories')
        run.hit('histories')


def run_cache_source(run, case, d):
    """a cache fed by another cache (same grid, tiles handed over one to one): the 'upstream' of the refreshing cache is the
    base cache. Observed: calls into the base cache's tile manager and the stored timestamp of the refreshing cache's tile.
    A tile re-created now is stored with the time of writing, whatever age the base cache's tile has, and is then fresh."""
    import io as _io
    from PIL import Image
    from mapproxy.cache.tile import Tile
    rng = run.rng('cachesrc', case['i'])
    backend = rng.choice(['sqlite', 'sqlite', 'file'])
    via = rng.choice(['tms', 'tm'])
    tz = rng.choice(['UTC', 'Europe/Berlin', 'America/St_Johns', 'Asia/Kolkata'])
    up = upstream.install()
    up.faults.clear()
    up.reset_log()
    state = {'epoch': 0}

    def pic(call):
        try:
            w, h = int(call.params.get('width', 64)), int(call.params.get('height', 64))
        except ValueError:
            w, h = 64, 64
        b = _io.BytesIO()
        im = Image.new('RGB', (max(1, min(w, 1024)), max(1, min(h, 1024))), LINK_COLOURS[state['epoch'] % len(LINK_COLOURS)])
        im.putpixel((1, 1), (1, 2, 3))      # not single coloured
        im.save(b, 'PNG')
        return upstream.Resp(b.getvalue(), 'image/png')
    up.register('flat', pic)
    with timezone(tz):
        now = int(time.time())
        T0 = now - 30 * 86400
        while not stable_offset(T0, tz):
            T0 -= 3 * 86400
        conf = scenario.base_conf()
        conf['grids']['g'] = {'srs': 'EPSG:3857', 'bbox': [-20037508.342789244, -20037508.342789244, 20037508.342789244, 20037508.342789244],
                              'tile_size': [64, 64], 'num_levels': 4, 'origin': 'll'}
        conf['sources']['src'] = {'type': 'wms', 'req': {'url': 'http://flat/service?', 'layers': 'a'}, 'supported_srs': ['EPSG:3857']}
        conf['caches']['b'] = {'grids': ['g'], 'sources': ['src'], 'format': 'image/png', 'request_format': 'image/png',
                               'meta_size': [1, 1], 'meta_buffer': 0, 'cache': {'type': 'file', 'directory_layout': 'tc'}}
        conf['caches']['c'] = {'grids': ['g'], 'sources': ['b'], 'format': 'image/png', 'request_format': 'image/png',
                               'meta_size': [1, 1], 'meta_buffer': 0,
                               'cache': {'type': 'sqlite'} if backend == 'sqlite' else {'type': 'file', 'directory_layout': 'tc'},
                               'refresh_before': {'time': local_str(T0, tz, 'T')}}
        conf['layers'] = [{'name': 'l', 'title': 'l', 'sources': ['c']}]
        conf['services'] = {'tms': {}}
        sc = scenario.Scenario(d, conf)
        tmc = sc.tile_manager('c')
        tmb = sc.tile_manager('b')
        base_calls = []
        real_load = tmb.load_tile_coords

        def load_tile_coords(*a, **kw):
            base_calls.append(1)
            return real_load(*a, **kw)
        tmb.load_tile_coords = load_tile_coords
        A = (rng.randrange(4), rng.randrange(4), 2)
        hist = []
        mech0 = {'mode': 'cache_source', 'backend': backend, 'via': via}

        def stored_ts():
            if backend == 'sqlite':
                p_ = os.path.join(tmc.cache.cache_dir, '%d.mbtile' % A[2])
                con = sqlite3.connect(p_, timeout=20)
                try:
                    row = con.execute('SELECT last_modified FROM tiles WHERE tile_column=? AND tile_row=? AND zoom_level=?', A).fetchone()
                finally:
                    con.close()
                return parse_local(row[0], tz) if row else None
            try:
                return os.lstat(tmc.cache.tile_location(Tile(A))).st_mtime
            except OSError:
                if os.environ.get('C13_DEBUG'):
                    print('no file at', tmc.cache.tile_location(Tile(A)), [os.path.join(r, f) for r, _, fs in os.walk(d) for f in fs][:20])
                return None

        def stamp_old():
            ts = T0 - 3600
            p_b = tmb.cache.tile_location(Tile(A))
            os.utime(p_b, (ts, ts))
            if backend == 'sqlite':
                con = sqlite3.connect(os.path.join(tmc.cache.cache_dir, '%d.mbtile' % A[2]), timeout=20)
                try:
                    con.execute('UPDATE tiles SET last_modified=? WHERE tile_column=? AND tile_row=? AND zoom_level=?',
                                (local_str(ts, tz),) + A)
                    con.commit()
                finally:
                    con.close()
            else:
                os.utime(tmc.cache.tile_location(Tile(A)), (ts, ts))

        def ask(label):
            n0 = len(base_calls)
            t0 = time.time()
            if via == 'tms':
                r = sc.get('/tiles/l/EPSG3857/%d/%d/%d.png' % (A[2], A[0], A[1]))      # (/tms shifts the levels of global grids)
                ok = r.code == 200
            else:
                coll = tmc.load_tile_coords([A], with_metadata=True)
                ok = coll[A].source is not None
            t1 = time.time()
            n = len(base_calls) - n0
            ts = stored_ts()
            hist.append('%s -> %s, %d calls into the base cache, stored timestamp %s' % (label, 'ok' if ok else 'FAILED', n, ts))
            return ok, n, ts, t0, t1

        def expect(label, got, want_calls, written, clause):
            ok, n, ts, t0, t1 = got
            run.judge(('cache_source', backend, via, clause), nontrivial=True)
            run.hit('cache_source_judgements')
            bad = None
            if not ok:
                bad = 'request_failed'
            elif want_calls == 0 and n != 0:
                bad = 'fresh_refetched'
            elif want_calls > 0 and n == 0:
                bad = 'stale_served'
            elif written and (ts is None or not (t0 - 2.0 <= ts <= t1 + 2.0)):
                bad = 'stored_timestamp_is_not_the_time_of_writing'
            if bad:
                run.violation(dict(mech0, clause=bad, step=clause), case,
                              'cache fed by a cache (%s, via %s, tz %s): step %s: expected %s calls into the base cache%s; observed %d calls, '
                              'stored timestamp %r, request between %.1f and %.1f | threshold %d | history: %s' % (
                                  backend, via, tz, label, 'no' if want_calls == 0 else 'some',
                                  ' and a stored timestamp of now' if written else '', n, ts, t0, t1, T0, ' ; '.join(hist)))
                return False
            return True
        if not expect('fill', ask('fill'), 1, True, 'fill'):
            return
        if not expect('repeat', ask('repeat'), 0, False, 'fresh'):
            return
        stamp_old()
        hist.append('tile of the base cache and tile of the refreshing cache stamped threshold-3600')
        if not expect('stale', ask('stale'), 1, True, 'refresh_from_old_base_tile'):
            return
        if not expect('repeat after refresh', ask('repeat after refresh'), 0, False, 'fresh_after_refresh_from_old_base_tile'):
            return
        run.hit('cache_source_histories')


def run_linked(run, case, d):
    import io as _io
    from PIL import Image
    from mapproxy.cache.tile import Tile
    rng = run.rng('linked', case['i'])
    mode = rng.choice([True, True, 'hardlink'])
    layout = rng.choice(['tc', 'tms', 'mp', 'quadkey', 'arcgis'])
    meta = rng.choice([(1, 1), (1, 1), (2, 2), (2, 1)])
    via = rng.choice(['tms', 'tm'])
    same_colour = rng.choice([0, 0, 1])
    force = case.get('force') or {}
    mode, layout, via, same_colour = (force.get('link', mode), force.get('layout', layout), force.get('via', via),
                                      force.get('second_epoch', same_colour))
    meta = tuple(force.get('meta', meta))
    state = {'epoch': 0}
    up = upstream.install()
    up.faults.clear()
    up.reset_log()

    def flat(call):
        try:
            w, h = int(call.params.get('width', 64)), int(call.params.get('height', 64))
        except ValueError:
            w, h = 64, 64
        b = _io.BytesIO()
        Image.new('RGB', (max(1, min(w, 2048)), max(1, min(h, 2048))), LINK_COLOURS[state['epoch'] % len(LINK_COLOURS)]).save(b, 'PNG')
        return upstream.Resp(b.getvalue(), 'image/png')
    up.register('flat', flat)
    now = int(time.time())
    T0 = now - 30 * 86400
    conf = scenario.base_conf()
    conf['grids']['g'] = {'srs': 'EPSG:3857', 'bbox': [-20037508.342789244, -20037508.342789244, 20037508.342789244, 20037508.342789244],
                          'tile_size': [64, 64], 'num_levels': 4, 'origin': 'll'}
    conf['sources']['src'] = {'type': 'wms', 'req': {'url': 'http://flat/service?', 'layers': 'a'}, 'supported_srs': ['EPSG:3857']}
    conf['caches']['c'] = {'grids': ['g'], 'sources': ['src'], 'format': 'image/png', 'request_format': 'image/png',
                           'meta_size': list(meta), 'meta_buffer': 0, 'link_single_color_images': mode,
                           'cache': {'type': 'file', 'directory_layout': layout},
                           'refresh_before': {'time': time.strftime('%Y-%m-%dT%H:%M:%S', time.localtime(T0))}}
    conf['layers'] = [{'name': 'l', 'title': 'l', 'sources': ['c']}]
    conf['services'] = {'tms': {}}
    sc = scenario.Scenario(d, conf)
    tm = sc.tile_manager('c')
    cache_dir = tm.cache.cache_dir
    z = 2
    pool = [(x, y, z) for x in range(4) for y in range(4)]
    rng.shuffle(pool)
    # A and B in different meta tiles
    A = pool[0]
    B = [c for c in pool if (c[0] // meta[0], c[1] // meta[1]) != (A[0] // meta[0], A[1] // meta[1])][0]
    hist = []
    mech0 = {'mode': 'linked', 'link': 'symlink' if mode is True else 'hardlink', 'meta': '%dx%d' % meta, 'via': via, 'layout': layout}

    def ask(c, label):
        n0 = len(up.log)
        if via == 'tms':
            r = sc.get('/tms/1.0.0/l/EPSG3857/%d/%d/%d.png' % (c[2], c[0], c[1]))
            ok = r.code == 200
            img = r.image() if ok else None
        else:
            coll = tm.load_tile_coords([tuple(c)], with_metadata=True)
            t = coll[tuple(c)]
            ok = t.source is not None
            img = t.source.as_image() if ok else None
        ncalls = len(up.log) - n0
        col = img.convert('RGB').getpixel((5, 5)) if img is not None else None
        hist.append('%s %r -> %d upstream call(s), colour %r' % (label, c, ncalls, col))
        return ncalls, col

    def stamp_all(ts):
        # links are stamped themselves (never followed), shared colour files too
        n = 0
        for root, dirs, files in os.walk(cache_dir):
            for f in files:
                os.utime(os.path.join(root, f), (ts, ts), follow_symlinks=False)
                n += 1
        return n

    def expect(label, got, want_calls, want_col, clause):
        run.judge(('linked', mech0['link'], mech0['meta'], via, clause), nontrivial=True)
        run.hit('linked_tile_judgements')
        calls, col = got
        bad = None
        if want_calls == 0 and calls != 0:
            bad = 'fresh_refetched'
        elif want_calls > 0 and calls == 0:
            bad = 'stale_served'
        elif want_col is not None and col != want_col:
            bad = 'wrong_epoch_shown'
        if bad:
            run.violation(dict(mech0, clause=bad, step=clause), case,
                          'linked single-colour tiles (%r, layout %s, meta %r, via %s): step %s expected %s upstream calls and colour %r, '
                          'observed %d calls and %r | threshold %d | history: %s' % (
                              mode, layout, meta, via, label, 'no' if want_calls == 0 else 'some', want_col, calls, col, T0, ' ; '.join(hist)))
            return False
        return True

    c0 = LINK_COLOURS[0]
    if not expect('fill A', ask(A, 'fill A'), 1, c0, 'fill'):
        return
    if not expect('repeat A', ask(A, 'repeat A'), 0, c0, 'fresh_link_fresh_file'):
        return
    n = stamp_all(T0 - 3600)
    hist.append('every file and link below the cache stamped threshold-3600 (%d entries)' % n)
    run.hit('linked_tiles_with_old_shared_file')
    state['epoch'] = same_colour                    # same colour again (shared file reused) or a new one
    cB = LINK_COLOURS[state['epoch']]
    if not expect('fill B', ask(B, 'fill B'), 1, cB, 'fill_second'):
        return
    # B was written now (after the threshold); with the same colour its data file is the old shared one
    if not expect('repeat B', ask(B, 'repeat B'), 0, cB, 'fresh_link_old_file' if state['epoch'] == 0 else 'fresh_link_fresh_file'):
        return
    state['epoch'] = 2
    c2 = LINK_COLOURS[2]
    # A's link is older than the threshold: must be refreshed and show the new epoch
    if not expect('stale A', ask(A, 'stale A'), 1, c2, 'stale_link'):
        return
    if not expect('repeat A after refresh', ask(A, 'repeat A after refresh'), 0, c2, 'fresh_after_refresh'):
        return
    expect('repeat B at the end', ask(B, 'repeat B at the end'), 0, cB, 'fresh_link_old_file_later')
    run.hit('linked_histories')


def run_case(run, case):
    rng = run.rng('case', case['i'])
    mode = case['mode']
    spec = case.get('spec') or (gen_spec(rng, mode) if mode not in ('linked', 'cache_source', 'two_sources', 'dims') else None)
    ops = case.get('ops')
    if ops is None and mode not in ('linked', 'cache_source', 'two_sources', 'dims'):
        ops = gen_serve_ops(rng, spec) if mode == 'serve' else gen_seed_ops(rng, spec)
    d = run.subdir('c13')
    up = upstream.install()
    if mode in ('linked', 'cache_source', 'two_sources', 'dims'):
        try:
            {'linked': run_linked, 'cache_source': run_cache_source, 'two_sources': run_two_sources, 'dims': run_dims}[mode](run, case, d)
        finally:
            up.faults.clear()
            shutil.rmtree(d, ignore_errors=True)
        return
    try:
        with timezone(spec['tz']):
            if mode == 'serve':
                run_serve(run, case, spec, ops, d)
            else:
                run_seed(run, case, spec, ops, d)
    finally:
        up.faults.clear()
        shutil.rmtree(d, ignore_errors=True)


def evidence_extra(total):
    return {'histories': total.monitors.get('histories', 0), 'seed_tasks': total.monitors.get('seed_tasks', 0)}


if __name__ == '__main__':
    core.main(sys.modules[__name__])
