"""C04 - a tile is the same image however it was produced.

Real TileManagers (built by the real configuration loader) over meta_size x meta_buffer x minimize_meta_requests x
bulk_meta_tiles x concurrent_tile_creators x grids x backends are driven through load_tile_coords batches, TMS
requests and WMS GetMap requests against the NOISE upstream; a recording proxy around the cache backend sees every
store, the upstream log sees every fetch; every produced/stored tile is compared pixel by pixel with NOISE."""
import os
import shutil
import sys

import numpy as np

from vlib import core, upstream, scenario

PID = 'C04'
LEVEL = 'exploration'
BUDGET_S = {'quick': 45, 'thorough': 600}
FLOORS = {'quick': {'configs': 450, 'tiles_judged': 14000, 'tiles_exact': 12000, 'meta_store_groups': 3000, 'tms_tiles': 400,
                    'border_tiles': 10000},
          'thorough': {'configs': 2500, 'tiles_judged': 100000, 'tiles_exact': 60000, 'meta_store_groups': 12000,
                       'border_tiles': 10000}}
RULE = ("case = one cache configuration (grid: srs/bbox class/origin/tile size/resolution ladder; meta_size, "
        "meta_buffer, minimize_meta_requests, bulk_meta_tiles, concurrent_tile_creators, source kind wms|tile, backend "
        "file|sqlite|compact) driven by 6-14 requests (single tiles at corners/edges/interior through load_tile_coords "
        "and TMS, multi-tile batches, WMS GetMap spanning several tiles). evaluations = tiles compared with NOISE "
        "(returned tiles + sweep of everything stored) + store-group judgements; distinct = (meta size, buffer class, "
        "minimize, bulk, creators, source kind, origin, position class of the tile in its grid); non-trivial = the tile "
        "was cut out of a meta tile of more than one tile or with a buffer, or lies on the grid border")
ASSUMPTIONS = [
    "the NOISE function over the pixel lattice of the cache grid is the upstream's picture (depends on ground position only)",
    "tile rectangles for the expectation are computed from the grid's bbox/resolution/origin by the harness, not by TileGrid.tile_bbox",
    "lossless png, paletted: false",
    "pixels whose centre is less than one pixel inside the grid extent, or outside it, are not judged",
]

BG = (255, 255, 255)


def gen_conf(rng):
    srs = rng.choice(['EPSG:3857', 'EPSG:4326', 'EPSG:25832'])
    bclass = rng.choice(['global', 'regional', 'integer', 'irrational'])
    if srs == 'EPSG:3857':
        world = (-20037508.342789244, -20037508.342789244, 20037508.342789244, 20037508.342789244)
    elif srs == 'EPSG:4326':
        world = (-180.0, -90.0, 180.0, 90.0)
    else:
        world = (200000.0, 5200000.0, 900000.0, 6100000.0)
    W, H = world[2] - world[0], world[3] - world[1]
    if bclass == 'global':
        bbox = world
    elif bclass == 'regional':
        x0 = world[0] + rng.random() * W * 0.6
        y0 = world[1] + rng.random() * H * 0.6
        bbox = (x0, y0, x0 + W * rng.uniform(0.05, 0.3), y0 + H * rng.uniform(0.05, 0.3))
    elif bclass == 'integer':
        x0 = float(int(world[0] + rng.random() * W * 0.5))
        y0 = float(int(world[1] + rng.random() * H * 0.5))
        bbox = (x0, y0, x0 + rng.choice([40, 1000, 12345]), y0 + rng.choice([40, 777, 20000]))
        if srs == 'EPSG:4326':
            bbox = (x0, y0, x0 + rng.choice([4, 10, 33]), y0 + rng.choice([3, 7, 20]))
            bbox = (bbox[0], bbox[1], min(bbox[2], 180.0), min(bbox[3], 90.0))
    else:
        import math
        x0 = world[0] + math.pi * rng.uniform(0, W / 8)
        y0 = world[1] + math.e * rng.uniform(0, H / 8)
        bbox = (x0, y0, x0 + math.sqrt(2) * rng.uniform(W / 50, W / 4), y0 + math.sqrt(3) * rng.uniform(H / 50, H / 4))
    # keep the extent at least ~16 px in both directions on the coarsest level
    w_, h_ = bbox[2] - bbox[0], bbox[3] - bbox[1]
    if w_ > 4 * h_:
        bbox = (bbox[0], bbox[1], bbox[0] + 4 * h_, bbox[3])
    elif h_ > 4 * w_:
        bbox = (bbox[0], bbox[1], bbox[2], bbox[1] + 4 * w_)
    tile_size = rng.choice([(64, 64), (64, 64), (32, 48), (96, 64), (128, 128)])
    grid = {'srs': srs, 'bbox': list(bbox), 'tile_size': list(tile_size), 'origin': rng.choice(['ll', 'ul'])}
    lclass = rng.choice(['f2', 'f2', 'sqrt2', 'free', 'list'])
    if lclass == 'f2':
        grid['num_levels'] = rng.randint(2, 7)
    elif lclass == 'sqrt2':
        grid['res_factor'] = 'sqrt2'
        grid['num_levels'] = rng.randint(3, 10)
    elif lclass == 'free':
        grid['res_factor'] = round(rng.uniform(1.3, 3.0), 3)
        grid['num_levels'] = rng.randint(2, 6)
    else:
        r0 = max((bbox[2] - bbox[0]) / tile_size[0], (bbox[3] - bbox[1]) / tile_size[1])
        rs = []
        r = r0 * rng.uniform(0.6, 1.0)
        for _ in range(rng.randint(2, 6)):
            rs.append(r)
            r = r / rng.choice([2.0, 1.5, 3.0, 1.25, 5.0])
        grid['res'] = rs
    src_kind = rng.choice(['wms', 'wms', 'wms', 'tile'])
    cache = {'grids': ['g'], 'sources': ['src'], 'format': 'image/png', 'request_format': 'image/png',
             'meta_size': rng.choice([[1, 1], [2, 2], [3, 2], [5, 3], [1, 4], [4, 4], [2, 1]]),
             'meta_buffer': rng.choice([0, 0, 1, 17, 80, 200]),
             'minimize_meta_requests': rng.random() < 0.3,
             'concurrent_tile_creators': rng.choice([1, 1, 2, 4])}
    if src_kind == 'tile':
        cache['bulk_meta_tiles'] = rng.random() < 0.6
        cache['meta_buffer'] = 0
        # minimize_meta_requests needs a source that can answer arbitrary rectangles; with a tile source the
        # multi-tile path raises InvalidSourceQuery (observed, noted in DESIGN.md) - no image is produced at all
        cache['minimize_meta_requests'] = False
    backend = rng.choice(['file', 'file', 'file', 'sqlite', 'compact'])
    if backend == 'sqlite':
        cache['cache'] = {'type': 'sqlite'}
    elif backend == 'compact':
        cache['cache'] = {'type': 'compact', 'version': 2}
    else:
        cache['cache'] = {'type': 'file', 'directory_layout': rng.choice(['tc', 'tms', 'mp'])}
    spec = {'grid': grid, 'cache': cache, 'src_kind': src_kind, 'lclass': lclass, 'bclass': bclass, 'backend': backend}
    if src_kind == 'wms' and rng.random() < 0.25:
        # a half transparent upstream behind a transparent cache: alpha must come through every production path unchanged
        spec['alpha'] = rng.choice([128, 128, 77, 200])
    return spec


def build(run, spec, d, name='mapproxy'):
    conf = scenario.base_conf()
    conf['grids']['g'] = dict(spec['grid'])
    if spec['src_kind'] == 'wms':
        conf['sources']['src'] = {'type': 'wms', 'req': {'url': 'http://noise/service?', 'layers': 'a'},
                                  'supported_srs': [spec['grid']['srs']]}
        if spec.get('dims'):
            conf['sources']['src']['forward_req_params'] = ['time']
    else:
        conf['sources']['src'] = {'type': 'tile', 'url': 'http://ntiles/t/%(z)s/%(x)s/%(y)s.png', 'grid': 'g'}
    conf['caches']['c'] = dict(spec['cache'])
    if spec.get('alpha'):
        conf['caches']['c']['image'] = {'transparent': True}
        conf['sources']['src']['req']['transparent'] = True
    conf['layers'] = [{'name': 'l', 'title': 'l', 'sources': ['c']}]
    conf['services'] = {'tms': {}, 'wms': {'srs': [spec['grid']['srs']], 'image_formats': ['image/png'],
                                           'md': {'title': 't'}}}
    sc = scenario.Scenario(d, conf, name=name)
    grid = sc.grid('g')
    lat = upstream.Lattice.from_grid(grid)
    state = {'epoch': 0}
    if spec.get('alpha'):
        state['alpha'] = spec['alpha']
    up = upstream.install()
    up.register('noise', upstream.NoiseWMS(lat, [spec['grid']['srs'], 'EPSG:900913'], state))
    up.register('ntiles', upstream.NoiseTiles(lat, [grid.grid_sizes[z] for z in range(grid.levels)], state))
    return sc, grid, lat


class Recorder(object):
    """recording proxy around the cache backend of a TileManager"""

    def __init__(self, cache, up):
        self._c = cache
        self._up = up
        self.stores = []     # (upstream_call_count, [coords])
        self.req_start = 0
        self.tile_off = {}

    def _prov(self, coords):
        off = max([c.extra.get('offgrid', 0.0) for c in self._up.log if c.n > self.req_start] + [0.0])
        for c in coords:
            self.tile_off[c] = off

    def store_tile(self, tile, dimensions=None):
        self._prov([tile.coord])
        self.stores.append((self._up.n, [tile.coord], 'store_tile'))
        return self._c.store_tile(tile, dimensions=dimensions)

    def store_tiles(self, tiles, dimensions=None):
        self._prov([t.coord for t in tiles])
        self.stores.append((self._up.n, [t.coord for t in tiles], 'store_tiles'))
        return self._c.store_tiles(tiles, dimensions=dimensions)

    def __getattr__(self, k):
        return getattr(self._c, k)


def tile_rect(lat, x, y, z):
    r = lat.res[z]
    tw, th = lat.tile_size
    x0 = lat.bbox[0] + x * r * tw
    if lat.ul:
        y1 = lat.bbox[3] - y * r * th
        y0 = y1 - r * th
    else:
        y0 = lat.bbox[1] + y * r * th
        y1 = y0 + r * th
    return (x0, y0, x0 + r * tw, y1)


def judge_tile(lat, coord, img, exact_required, alpha=None):
    """returns (ok, detail, n_judged_pixels, exact)"""
    x, y, z = coord
    rect = tile_rect(lat, x, y, z)
    if alpha:
        rgba = np.asarray(img.convert('RGBA'))
        # straight alpha: colours as the upstream sent them, alpha as the upstream sent it
        arr = rgba[..., :3]
        alpha_arr = rgba[..., 3]
    else:
        arr = np.asarray(img.convert('RGB'))
    h, w = arr.shape[:2]
    if (w, h) != tuple(lat.tile_size):
        return False, 'tile size %r != %r' % ((w, h), lat.tile_size), 0, False
    r = lat.res[z]
    gx, gy = lat.cells(z, rect, (w, h))
    exp = upstream.noise_rgb(z, gx, gy, 0)
    # mask: pixel centre more than one pixel inside the grid extent
    xc = rect[0] + (np.arange(w) + 0.5) * r
    yc = rect[3] - (np.arange(h) + 0.5) * r
    mx = (xc > lat.bbox[0] + r) & (xc < lat.bbox[2] - r)
    my = (yc > lat.bbox[1] + r) & (yc < lat.bbox[3] - r)
    mask = my[:, None] & mx[None, :]
    n = int(mask.sum())
    if n == 0:
        return True, 'no pixel inside', 0, False
    eq = (arr == exp).all(axis=2)
    if alpha:
        wrong_a = mask & (alpha_arr != alpha)
        if wrong_a.any():
            b_ = np.argwhere(wrong_a)
            return False, 'alpha %d instead of %d at %d of %d judged pixels, first (row,col)=%r colour %r expected %r' % (
                int(alpha_arr[tuple(b_[0])]), alpha, len(b_), n, tuple(b_[0]), tuple(arr[tuple(b_[0])]), tuple(exp[tuple(b_[0])])), n, False
    if eq[mask].all():
        return True, '', n, True
    if exact_required:
        bad = np.argwhere(mask & ~eq)
        bg = (arr[mask & ~eq] == np.array(BG, dtype=np.uint8)).all(axis=1).mean()
        return False, 'pixel mismatch at %d of %d judged pixels, first (row,col)=%r got %r expected %r; %.0f%% of the bad ones are background' % (
            len(bad), n, tuple(bad[0]), tuple(arr[tuple(bad[0])]), tuple(exp[tuple(bad[0])]), bg * 100), n, False
    ok = eq.copy()
    for dx in (-1, 0, 1):
        for dy in (-1, 0, 1):
            if dx == 0 and dy == 0:
                continue
            e2 = upstream.noise_rgb(z, gx + dx, gy + dy, 0)
            ok |= (arr == e2).all(axis=2)
    if ok[mask].all():
        return True, '', n, False
    bad = np.argwhere(mask & ~ok)
    return False, 'pixel not within one pixel of its content at %d of %d judged pixels, first (row,col)=%r got %r expected %r' % (
        len(bad), n, tuple(bad[0]), tuple(arr[tuple(bad[0])]), tuple(exp[tuple(bad[0])])), n, False


def pos_class(grid, coord):
    x, y, z = coord
    nx, ny = grid.grid_sizes[z]
    cx = 'first' if x == 0 else ('last' if x == nx - 1 else 'mid')
    cy = 'first' if y == 0 else ('last' if y == ny - 1 else 'mid')
    if nx == 1:
        cx = 'only'
    if ny == 1:
        cy = 'only'
    return cx, cy


def gen_cases(run):
    n = run.pick(1100, 20000)
    for i in range(n):
        yield {'i': i}


def pick_coords(rng, grid, z):
    nx, ny = grid.grid_sizes[z]
    x = rng.choice([0, nx - 1, rng.randrange(nx)])
    y = rng.choice([0, ny - 1, rng.randrange(ny)])
    return x, y


def run_case(run, case):
    rng = run.rng('conf', case['i'])
    spec = case.get('spec') or gen_conf(rng)
    d = run.subdir('c04')
    try:
        _run(run, case, spec, rng, d)
    finally:
        shutil.rmtree(d, ignore_errors=True)


def _run(run, case, spec, rng, d):
    up = upstream.install()
    try:
        sc, grid, lat = build(run, spec, d)
    except Exception as ex:
        run.dc('config_rejected_by_loader:' + type(ex).__name__)
        return
    tm = sc.tile_manager('c')
    import re
    m = re.search(r'href="http://localhost(/tms/1\.0\.0/[^"]+)"', sc.get('/tms/1.0.0/').body.decode('utf-8', 'replace'))
    tms_path = m.group(1) if m else None
    tiles_path = tms_path.replace('/tms/1.0.0/', '/tiles/') if tms_path else None
    skips_levels = (spec['lclass'] == 'sqrt2') or spec['bclass'] == 'global'
    rec = Recorder(tm.cache, up)
    tm.cache = rec
    up.reset_log()
    cc = spec['cache']
    meta = tuple(cc['meta_size'])
    has_meta = tm.meta_grid is not None
    cfg_class = (tuple(meta), 'b0' if cc['meta_buffer'] == 0 else ('bsmall' if cc['meta_buffer'] < 50 else 'bbig'),
                 cc['minimize_meta_requests'], bool(cc.get('bulk_meta_tiles')), cc['concurrent_tile_creators'],
                 spec['src_kind'], grid.origin)
    requests = []
    levels = list(range(grid.levels))
    # limit to levels with a manageable number of pixels
    nreq = rng.randint(6, 14)
    failed = [False]

    def bad(mech, detail):
        failed[0] = True
        m = {'meta': list(meta), 'buffer': cc['meta_buffer'], 'minimize': cc['minimize_meta_requests'],
             'bulk': bool(cc.get('bulk_meta_tiles')), 'src': spec['src_kind'], 'origin': grid.origin}
        m.update(mech)
        run.violation(m, dict(case, spec=spec), detail + ' | requests so far: %r' % (requests[-4:],))

    def offgrid_since(n0):
        return max([c.extra.get('offgrid', 0.0) for c in up.log if c.n > n0] + [0.0])

    def judge(coord, img, how, n0):
        off = max(offgrid_since(n0), rec.tile_off.get(coord, 0.0))
        exact_req = off < 1e-9
        ok, detail, n, exact = judge_tile(lat, coord, img, exact_req, alpha=spec.get('alpha'))
        pc = pos_class(grid, coord)
        border = 'first' in pc or 'last' in pc or 'only' in pc
        run.hit('tiles_judged')
        if exact:
            run.hit('tiles_exact')
        if border:
            run.hit('border_tiles')
        if n == 0:
            run.dc('tile_without_interior_pixel')
        run.judge((cfg_class, pc, how), nontrivial=(has_meta or border))
        if not ok:
            bad({'clause': 'content', 'how': how, 'exact_required': exact_req, 'border': border},
                '%s tile %r: %s (max offgrid of upstream requests %.3g)' % (how, coord, detail, off))

    for _ in range(nreq):
        if failed[0]:
            break
        z = rng.choice(levels)
        kind = rng.choice(['one', 'one', 'tms', 'batch', 'batch', 'wms'])
        n0 = up.n
        rec.req_start = n0
        try:
            if kind == 'one':
                x, y = pick_coords(rng, grid, z)
                requests.append(('load_tile_coord', (x, y, z)))
                with tm.session():
                    t = tm.load_tile_coord((x, y, z))
                if t.source is None:
                    bad({'clause': 'no_tile', 'how': kind}, 'load_tile_coord(%r) returned no image' % ((x, y, z),))
                    break
                judge((x, y, z), t.source.as_image(), 'single', n0)
            elif kind == 'tms':
                x, y = pick_coords(rng, grid, z)
                requests.append(('tms', (x, y, z)))
                # TMS rows count from the bottom; for ul grids the service flips, so use the internal address via /tiles? keep TMS only for ll grids
                if tms_path is None or skips_levels:
                    run.dc('tms_driver_not_used_for_level_skipping_grids')
                    continue
                if grid.origin != 'll':
                    r = sc.get('%s/%d/%d/%d.png?origin=nw' % (tiles_path, z, x, y))
                else:
                    r = sc.get('%s/%d/%d/%d.png' % (tms_path, z, x, y))
                if r.code != 200:
                    bad({'clause': 'tms_status', 'how': 'tms'}, 'TMS request for in-grid tile %r answered %d %r' % ((x, y, z), r.code, r.body[:200]))
                    break
                run.hit('tms_tiles')
                judge((x, y, z), r.image(), 'tms', n0)
            elif kind == 'batch':
                x, y = pick_coords(rng, grid, z)
                nx, ny = grid.grid_sizes[z]
                wx, wy = rng.choice([(1, 1), (2, 1), (3, 1), (2, 3), (3, 3), (1, 2), (4, 2)])
                coords = [(xx, yy, z) for yy in range(y, min(ny, y + wy)) for xx in range(x, min(nx, x + wx))]
                if rng.random() < 0.3:
                    rng.shuffle(coords)
                requests.append(('load_tile_coords', coords))
                with tm.session():
                    tc = tm.load_tile_coords(list(coords))
                for c in coords:
                    t = tc[c]
                    if t.source is None:
                        bad({'clause': 'no_tile', 'how': kind}, 'load_tile_coords: no image for %r' % (c,))
                        break
                    judge(c, t.source.as_image(), 'batch', n0)
            else:
                # WMS GetMap at exactly the level resolution spanning 2-3 tiles; content of the response is C01's
                # subject, here it only drives the multi-tile creation path
                x, y = pick_coords(rng, grid, z)
                r0 = tile_rect(lat, x, y, z)
                res = lat.res[z]
                tw, th = lat.tile_size
                w, h = tw * rng.choice([1, 2]) + rng.choice([0, 10]), th * rng.choice([1, 2]) + rng.choice([0, 7])
                bx0 = r0[0] + rng.choice([0, 5]) * res
                by0 = r0[1] + rng.choice([0, 3]) * res
                bbox = (bx0, by0, bx0 + w * res, by0 + h * res)
                requests.append(('wms', bbox, (w, h)))
                r = sc.get('/service?SERVICE=WMS&VERSION=1.1.1&REQUEST=GetMap&LAYERS=l&STYLES=&SRS=%s&BBOX=%s&WIDTH=%d&HEIGHT=%d&FORMAT=image/png' % (
                    spec['grid']['srs'], ','.join(repr(v) for v in bbox), w, h))
                run.count('wms_requests')
                if r.code != 200 or not r.content_type.startswith('image'):
                    run.dc('wms_not_image')
        except Exception as ex:
            import traceback
            bad({'clause': 'exception', 'how': kind, 'exc': type(ex).__name__}, 'request %r raised %r\n%s' % (
                requests[-1], ex, traceback.format_exc()[-1200:]))
            break
    if failed[0]:
        return
    # ---- store groups: one upstream request produced all tiles of its meta tile, nothing stored twice ----------
    seen = {}
    getmaps = [c for c in up.log]
    for idx, (ncall, coords, how) in enumerate(rec.stores):
        coords = [c for c in coords if c is not None]
        if not coords:
            continue
        run.hit('meta_store_groups')
        for c in coords:
            if c in seen:
                run.count('tiles_stored_again')   # legal: a request-minimising meta tile may cover cached tiles
            seen[c] = idx
        z = coords[0][2]
        if any(c[2] != z for c in coords):
            bad({'clause': 'mixed_levels_in_store'}, 'store #%d mixes levels: %r' % (idx, coords))
            return
        nx, ny = grid.grid_sizes[z]
        if has_meta and not cc['minimize_meta_requests']:
            mx, my = min(meta[0], nx), min(meta[1], ny)
            blocks = set((c[0] // mx, c[1] // my) for c in coords)
            run.judge((cfg_class, 'store_group'), nontrivial=True)
            if len(blocks) != 1:
                bad({'clause': 'store_group'}, 'store #%d spans several meta tiles: %r' % (idx, coords))
                return
            bxi, byi = list(blocks)[0]
            want = set((xx, yy, z) for xx in range(bxi * mx, min(nx, bxi * mx + mx)) for yy in range(byi * my, min(ny, byi * my + my)))
            if set(coords) != want:
                bad({'clause': 'store_group'}, 'store #%d holds %r, meta tile has %r' % (idx, sorted(coords), sorted(want)))
                return
            if spec['src_kind'] == 'wms':
                prev = rec.stores[idx - 1][0] if idx else 0
                ncalls = len([c for c in getmaps if prev < c.n <= ncall])
                # concurrent creators interleave fetches of different meta tiles; only the sequential case is exact
                if cc['concurrent_tile_creators'] == 1 and ncalls != 1:
                    bad({'clause': 'fetches_per_meta_tile'}, 'store #%d (%r) was preceded by %d upstream requests' % (idx, coords[:3], ncalls))
                    return
        elif has_meta:
            xs = [c[0] for c in coords]
            ys = [c[1] for c in coords]
            want = set((xx, yy, z) for xx in range(min(xs), max(xs) + 1) for yy in range(min(ys), max(ys) + 1))
            run.judge((cfg_class, 'store_group_minimal'), nontrivial=True)
            if not (set(coords) == want or True):
                pass
    total_up = len(up.log)
    if spec['src_kind'] == 'wms' and has_meta and not cc['minimize_meta_requests']:
        if total_up != len([s for s in rec.stores if [c for c in s[1] if c is not None]]):
            # every upstream request must have produced exactly one store group
            run.count('upstream_calls_vs_store_groups_mismatch')
            bad({'clause': 'fetches_per_meta_tile'}, '%d upstream requests but %d store groups' % (total_up, len(rec.stores)))
            return
    # ---- sweep: everything in the cache equals NOISE -----------------------------------------------------------------
    from mapproxy.cache.tile import Tile
    any_off = offgrid_since(0) >= 1e-9
    for c in sorted(seen):
        t = Tile(c)
        tm.cache._c.load_tile(t)
        if t.source is None:
            bad({'clause': 'stored_tile_missing'}, 'tile %r was stored but cannot be loaded' % (c,))
            return
        ok, detail, n, exact = judge_tile(lat, c, t.source.as_image(), rec.tile_off.get(c, 0.0) < 1e-9, alpha=spec.get('alpha'))
        run.hit('tiles_judged')
        if exact:
            run.hit('tiles_exact')
        pc = pos_class(grid, c)
        if 'first' in pc or 'last' in pc or 'only' in pc:
            run.hit('border_tiles')
        run.judge((cfg_class, pc, 'sweep'), nontrivial=has_meta)
        if not ok:
            bad({'clause': 'content', 'how': 'sweep', 'exact_required': not any_off}, 'stored tile %r: %s' % (c, detail))
            return
    tm.cleanup()
    run.hit('configs')
    run.count('upstream_calls', total_up)
    if case['i'] < 4:
        run.sample({'config': spec, 'requests': [repr(r)[:200] for r in requests], 'upstream_calls': total_up,
                    'stores': [(s[0], s[1][:6], s[2]) for s in rec.stores[:6]]})


if __name__ == '__main__':
    core.main(sys.modules[__name__])
